#!/bin/sh
# tools/coverage_of_repo.sh [tier]: which lines of /repo/trie do the checks execute?  Runs every check with
# coverage.py switched on in the replay workers and drivers (scratch output, evidence untouched) and prints
# the report; the lines never executed are where a change could go unnoticed by construction.
tier="${1:-quick}"
w=$(mktemp -d /tmp/verif-cov-XXXXXX); mkdir -p $w/site $w/data
printf 'import coverage\ncoverage.process_startup()\n' > $w/site/sitecustomize.py
printf '[run]\nsource = /repo/trie\nparallel = True\nbranch = True\ndata_file = %s/data/.coverage\n' $w > $w/rc
export COVERAGE_PROCESS_START=$w/rc VERIF_EXTRA_PYTHONPATH=$w/site PYTHONPATH=$w/site VERIF_OUT=$w/out
for c in ${CHECKS:-C01 C02 C03 C04 C05 C06 C07 C08 C09 C10 C11 C12 C13 C14 C15 C16 C17 C18}; do
  /verif/check $c --tier "$tier" > $w/$c.log 2>&1; echo "$c exit=$?"
done
unset COVERAGE_PROCESS_START
cd $w && /venv/bin/python -m coverage combine --rcfile=$w/rc -q data/ >/dev/null 2>&1
/venv/bin/python -m coverage report --rcfile=$w/rc -m --data-file=$w/data/.coverage 2>/dev/null || /venv/bin/python -m coverage report --rcfile=$w/rc -m
echo "(data in $w; remove it when done)"
