#!/bin/sh
# tools/process_wave.sh <dir> <results file>: confirm every not yet confirmed change under <dir>/C*.out*/[mnp]*,
# import the confirmed ones into seeded/, run the quick check of its property for every imported change
# that has no line in <results file> yet
dir="$1"; res="$2"; touch "$res"
for d in "$dir"/C*.out*/[mnpqrs][0-9]; do
  [ -f "$d/patch.diff" ] && [ -f "$d/demo.py" ] && [ ! -f "$d/verify.json" ] && echo "$d"
done | xargs -r -P 4 -n 1 /verif/tools/verify_mutant.sh
python3 /verif/tools/import_mutants.py "$dir"
for d in "$dir"/C*.out*/[mnpqrs][0-9]; do
  [ -f "$d/verify.json" ] || continue
  id="$(basename $(dirname $d) | cut -c1-3)-$(basename $d)"
  [ -d /verif/seeded/$id ] || continue
  grep -q "^$id " "$res" || echo "$id"
done | xargs -r -P 3 -n 1 /verif/tools/run_seeded.sh quick >> "$res"
