#!/bin/sh
# tools/run_mutants.sh <dir with <Cnn>.out/m*/patch.diff or seeded/<id>/patch.diff> <tier> [Cnn ...]
# runs, for every mutant of the named properties, that property's check; prints one line each
dir="$1"; tier="$2"; shift 2
for c in "$@"; do
  for pd in "$dir"/$c.out/m*/patch.diff "$dir"/$c-*/patch.diff; do
    [ -f "$pd" ] || continue
    out=$(/verif/tools/try_mutant.sh "$pd" "$tier" "$c" 2>&1)
    v=$(echo "$out" | grep -c "^VIOLATION")
    st=$(echo "$out" | grep -o "\[$c exit=[0-9]*\]")
    cl=$(echo "$out" | grep "clause=" | head -1 | cut -c1-120)
    echo "$pd $st violations=$v $cl"
  done
done
