#!/bin/sh
# tools/run_all.sh <tier>: run every registered check on /repo as it is; one summary line per check
tier="${1:-quick}"
for c in C01 C02 C03 C04 C05 C06 C07 C08 C09 C10 C11 C12 C13 C14 C15 C16 C17 C18; do
  s=$(date +%s)
  out=$(/verif/check $c --tier "$tier" 2>&1); st=$?
  e=$(date +%s)
  echo "$c tier=$tier exit=$st wall=$((e-s))s $(echo "$out" | grep -E "^(VIOLATION|KNOWN-FINDING|MACHINERY)" | head -2 | tr '\n' ' ' | cut -c1-200)"
done
