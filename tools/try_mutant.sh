#!/bin/sh
# tools/try_mutant.sh <patch.diff> <tier> <Cnn> [<Cnn> ...]
# Applies the patch to a scratch copy of /repo (outside /repo and /verif), runs the named
# checks against the copy with evidence redirected, prints their verdict lines, removes the copy.
patch="$1"; tier="$2"; shift 2
work=$(mktemp -d /tmp/verif-mut-XXXXXX)
git -C /repo archive HEAD | tar -x -C "$work"
( cd "$work" && git init -q . && git apply --whitespace=nowarn "$patch" ) || { echo "patch does not apply"; rm -rf "$work"; exit 2; }
rc=0
for c in "$@"; do
  out=$(VERIF_REPO="$work" VERIF_OUT="$work/.verif-out" /verif/check "$c" --tier "$tier" 2>&1)
  st=$?
  echo "$out" | grep -E "^(VIOLATION|KNOWN-FINDING|MACHINERY|  clause=|C[0-9]+ (quick|thorough):)" | head -8
  echo "[$c exit=$st]"
  [ $st -eq 1 ] && rc=1
done
rm -rf "$work"
exit $rc
