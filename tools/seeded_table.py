#!/usr/bin/env python3
"""tools/seeded_table.py <result files...>: (re)write seeded/RESULTS.md and the detected_by field of every
seeded/<id>/meta.json from the output lines of tools/run_seeded.sh (the last line per id wins)."""
import json, os, sys
rows = {}
for f in sys.argv[1:]:
    for l in open(f):
        p = l.split()
        if len(p) >= 4 and p[0][0] in "CD" and "-" in p[0] and p[1].startswith("tier="):
            rows[p[0]] = (p[1][5:], p[3], " ".join(x.replace("clause=", "") for x in p[4:]))
NOTE = {
 "C02-n3": "needs an incomplete database, which C02 does not quantify over; the change violates C07 (a call that neither reports the missing node nor gives the complete-database result) and the C07 check detects it",
 "C13-n3": "needs a database whose reads raise a transient error; C13 quantifies over tries and keys, not over faulty databases",
 "C04-p3": "adds a (wrong) ScratchDB.pop so that a batch opened on the batch trie of another batch can commit; on the current tree such a nested batch raises AttributeError as soon as it pruned anything. Batches inside batches are outside the modelled universe (DESIGN.md section 8); not detected",
 "C09-p1": "needs a database WRITE that raises during a direct set/delete of a pruning trie; no property quantifies over write failures of pruning tries outside batches (the current tree itself leaves partial writes and stale counts behind there); modelled as a named deviation of FailWrite and replayed in the C06 check, where the change shows up as NOTEs (by design not as a violation)",
 "C09-p3": "needs a database write that raises at the last write of a direct call: C09 quantifies over schedules of walk steps and set/delete, not over write failures; the change violates C04 (root moved by a failed write) and C02, and both of those checks detect it",
 "C14-n3": "from_db over the tree's own database and root still reads identically, which is all the property says; the harness reports the lost write-through as a mirror note",
}
out = ["# Seeded changes and the checks that detect them", "",
       "Each directory holds `patch.diff`, `demo.py` (exit 0 on the clean tree, exit 1 with the patch) and `meta.json`",
       "(what the change is, what it needs in order to manifest, what was run to confirm it). The `m*` (first wave) and `n*`",
       "(second wave) changes were written by sub-agents that were given only the text of one property and a scratch",
       "worktree of /repo; every one was confirmed by `tools/verify_mutant.sh` (compiles, pinned suite unchanged at 215",
       "passed with the same three failures, demo fails with the patch and passes without). None is ever committed to /repo.",
       "The `p*` changes are a third wave (asked for: state that survives a call, two features meeting, failure paths),",
       "the `q*` changes a fourth (two each for the six properties the third wave left out), the `r*` changes a fifth, the `s*` changes a sixth (two each for eight properties).",
       "`tools/run_seeded.sh quick` applies each to a scratch copy and runs the check of its property; this table is the",
       "result of that run on the current framework (detected = the check printed VIOLATION and exited 1).", "",
       "| id | needs to manifest | quick check of its property | first failing clauses |", "|---|---|---|---|"]
n_det = n_all = 0
for sid in sorted(os.listdir("/verif/seeded")):
    mp = f"/verif/seeded/{sid}/meta.json"
    if not os.path.exists(mp) or sid.startswith("D"):
        continue
    m = json.load(open(mp))
    need = (m.get("needs_to_manifest") or "").replace("\n", " ").replace("|", "/")
    need = need[:170] + ("…" if len(need) > 170 else "")
    tier, ex, cl = rows.get(sid, ("quick", "not-run", ""))
    det = "detected" if ex == "exit=1" else ("NOT detected: " + NOTE.get(sid, "")) if ex == "exit=0" else ex
    m["detected_by"] = {"check": sid[:3], "tier": tier, "result": ex, "clauses": cl, "note": NOTE.get(sid, "")}
    json.dump(m, open(mp, "w"), indent=1)
    n_all += 1
    n_det += ex == "exit=1"
    out.append(f"| {sid} | {need} | {det} | {cl} |")
out += ["", f"{n_det} of {n_all} detected by the quick check of their own property.", "",
        "Reverts of the three `fix:` commits (written by me; a `fixed` entry of known_findings.json suppresses nothing):", "",
        "| id | property | quick checks |", "|---|---|---|",
        "| D1-revert | C01 (also C03) | C01 detected (outer-lookup-raised, batch-lookup-raised); C03 detected (own-proof-does-not-verify); C07 quiet (the lookup raises on the complete database as well, which is C01's business) |",
        "| D2-revert | C06 | C06 detected (ref-count-not-true, ref-count-differs-from-regenerate, db-has-leftover-node) |",
        "| D3-revert | C05 (also C06) | C05 detected (abort-changed-ref-counts); C06 detected (ref-count-not-true after abort) |"]
open("/verif/seeded/RESULTS.md", "w").write("\n".join(out) + "\n")
print(n_det, "of", n_all)
