#!/usr/bin/env python3-vt
"""Regenerate /verif/MANIFEST.json from the table below (single source of truth for the interface)."""
import json
import os

HERE = os.path.dirname(os.path.dirname(os.path.abspath(__file__)))
ALL = [f"C{i:02d}" for i in range(1, 19)]

T_BOTH = ("TLA+ specification model checked exhaustively with TLC over a bounded universe; bound to the code in both "
          "directions: every TLC-generated transition is replayed on the real class through its public API, and "
          "traces recorded from the real code on generated histories are validated by TLC against the same actions")
NOTE = ("exhaustive only within the bounded universes listed in the evidence file; beyond them generated histories "
        "are samples; hash = identity in the model (keccak collisions are outside it); rlp, keccak, TLC and "
        "harness/realize.py are trusted")

ENGINES = {
    "tlc-codec": ("spec/Codec.tla", "the path and node encodings as TLA+ definitions (hex-prefix from Yellow Paper "
                  "appendix C, nibble/bit/byte conversions, binary key-path packing, binary node shapes); TLC "
                  "enumerates the bounded domain, checks the round-trip laws and prints the table that "
                  "harness/codec.py runs through the real functions; Trace_Codec.tla recomputes recorded real calls"),
    "tlc-rejects": ("spec/HexaryTrie.tla", "the Rejected actions and tables HexRejects / BinRejects / SmtRejects / "
                    "FogRejects of HexaryTrie.tla, BinaryTrie.tla, SMT.tla and Fog.tla, interleaved by TLC with every "
                    "other action; replayed with concrete ill-typed values by the four replayers"),
    "tlc-binary": ("spec/BinaryTrie.tla", "TLA+ specification of trie.binary.BinaryTrie (_set with its eight splitting "
                   "cases and two compressions transcribed; BCanon, BLookup, Conflict defined independently) and of the "
                   "helpers of trie.branches; model checked by TLC; behaviours and per-state branch / witness tables "
                   "replayed on the real code by harness/binary.py with its own realisation of the node formats"),
    "tlc-smt": ("spec/SMT.tla", "TLA+ specification of trie.smt (sparse Merkle tree in collapsed normal form, set / "
                "delete / calc_root transcribed, FullTree defined by recursive halving; SparseMerkleProof fed truncated "
                "update lists), model checked by TLC for depths 8, 16, 64 and 256; replayed by harness/smt.py"),
    "tlc-fogwalk": ("spec/FogWalk.tla", "TLA+ specification of the documented fog-guided walking loop (HexaryTrieFog + "
                    "TrieFrontierCache + traverse / traverse_from + simulated nodes) interleaved with mutations of the "
                    "trie, model checked by TLC over all schedules; SpecOrdered is NodeIterator.nodes(); behaviours "
                    "replayed on real objects by harness/fogwalk.py"),
    "tlc-scratchdb": ("spec/ScratchDB.tla", "TLA+ specification of trie.utils.db.ScratchDB (buffer, ghost latest-action "
                      "map, every way of leaving batch_commit), model checked exhaustively by TLC (with and without "
                      "state merging) and simulated; every behaviour replayed on the real class by harness/scratchdb.py"),
    "tlc-fog": ("spec/Fog.tla", "TLA+ specification of trie.fog.HexaryTrieFog (explore / mark_all_complete with their "
                "refusals, transcribed nearest_unknown / nearest_right next to the contracts the property states), model "
                "checked by TLC; behaviours replayed on the real class by harness/fog.py"),
    "tlc-hexary": ("spec/HexaryTrie.tla", "TLA+ specification (MPT.tla pure operators and definitions + HexaryTrie.tla "
                   "state machine, bounded instances in MC_Hexary.tla, trace reader Trace_Hexary.tla) model checked by "
                   "TLC; behaviours emitted per transition / per state are replayed on trie.HexaryTrie by "
                   "harness/hexary.py; recorded traces are validated by TLC"),
}

# property -> (engine, category, text, design section, technique, note)
CHECKS = {}


T_S2C_ONLY = ("TLA+ specification model checked exhaustively with TLC (per transition, per state table, history-unfolded) "
              "and simulated; bound to the code by replaying every TLC-generated behaviour / state table on the real "
              "code through its public API")
S2C_ONLY = {"C03", "C08", "C09", "C10", "C13", "C18"}


def add(pid, engine, text, technique=None, category="model_checking", note=NOTE):
    if technique is None:
        technique = T_S2C_ONLY if pid in S2C_ONLY else T_BOTH
    CHECKS[pid] = (engine, category, text, f"DESIGN.md section 6 {pid}", technique, note)


add("C01", "tlc-hexary", "TLC enumerates every history of set/delete/set-to-empty, direct and batched, pruning on and off, "
    "over a small key universe and checks MapRefinement on the specification; every generated transition is replayed "
    "on the real HexaryTrie and every lookup key (prefixes, extensions, inside-extension keys) is read back after it")
add("C02", "tlc-hexary", "the invariant root = Canon(contents), with Canon written from the Yellow Paper including exact "
    "RLP sizes and the <32-byte embedding rule, is model checked over all histories of universes built to reach node "
    "encodings of exactly 31/32/33 bytes and the RLP long forms; every transition is replayed and the real root hash "
    "and root bytes compared with keccak(rlp(realize(Canon)))")
add("C04", "tlc-hexary", "AppendOnly, Readable, PastRootsReadable and FailedWriteKeepsRoot are model checked over "
    "interleaved histories of two non-pruning handles, batches, snapshots of every past root, the first handle itself "
    "pointed back at any past root (Checkout: root_hash assignment, forked histories) and a failing database "
    "write at every position; each transition is replayed with a write-failing dict and every past root is re-read "
    "through a fresh trie and through at_root")
add("C05", "tlc-hexary", "CommitExact, AbortRestores and OpenBatchIsolated are action properties model checked over "
    "every batch of bounded length after every bounded history, abort at every position and commit write failure at "
    "every position, pruning on and off; each transition is replayed through the real context manager")
add("C06", "tlc-hexary", "PruneExact (db = Stored(root)) and RcTrue (rc = TrueRc(root)) are invariants of a specification "
    "that performs the code's own reference-count bookkeeping; model checked over universes with shared identical "
    "subtrees (counts 2 and 3), no-op updates and batches; each transition replayed and the real db key set, "
    "ref_count and regenerate_ref_count compared")
add("C03", "tlc-hexary", "ProofComplete, ProofOnPath and ProofSound (every subset of the needed nodes of every current "
    "and past root, with the rest of the database added: the verifier obtains the true value or refuses, and refuses "
    "whenever a hashed path node is withheld) are model checked on every reachable trie; for every reachable state the "
    "real get_proof / get_from_proof are run on the same subsets plus altered, foreign, reordered and duplicated nodes")
add("C07", "tlc-hexary", "fault enumeration by the model checker: every reachable trie x every subset (up to the bound) of "
    "its stored node bodies lost x every operation and key, followed by supply-and-retry; FailedCallUnchanged, "
    "ReportedTruth, RetryConverges, TraverseTruth and GetSameAsComplete are checked on the specification, every "
    "transition and every per-state traversal table is replayed on the real code with the same node bodies deleted")
add("C08", "tlc-hexary", "TraverseMatchesCanon compares the transcription of _traverse_from with NodeAt, an independent "
    "definition from the key set alone, at every prefix / deviating / extended path of every reachable trie; "
    "TraverseFromAgrees covers every split into prefix and segment, including continuation from simulated nodes; "
    "for every reachable state the real traverse / traverse_from / root_node are compared field by field and "
    "database reads are counted per hop")
add("C11", "tlc-fog", "Antichain, Commute, MarkIsExplores, RefusedUnchanged, ValidationExact and the query contracts "
    "(answer in the acceptable set defined from containment and sorted neighbours) are model checked over every "
    "exploration sequence of bounded depth; every transition is replayed on real fog objects, every earlier object "
    "is re-examined for immutability, serialisation is decoded with an independent hex-prefix decoder and every "
    "query key is asked after every transition; generated histories of real fog objects over all 16 nibbles and the "
    "recorded lineages of the fog objects in the repository's own tests are validated by TLC against Trace_Fog.tla")
add("C17", "tlc-scratchdb", "the action properties WrappedOnlyOnCommit, CommitApplies (last action per key wins, deletes "
    "only if requested), AbortKeeps (Exception and BaseException exits) and BufferEmptiedOnExit and the invariant "
    "ReadSeesLatest are model checked over every initial content and every call sequence; all behaviours up to a "
    "bounded length (history kept in the state, no merging) and random long ones are replayed on the real class; "
    "recorded histories on arbitrary byte keys and values are validated by TLC")
add("C09", "tlc-fogwalk", "all schedules of the bounded model: every initial trie, every order of exploration, every "
    "interleaving with a bounded number of inserts / overwrites / deletes, frontier cache on and off, pruning on and "
    "off (stale cache entries -> MissingTraversalNode -> entry dropped); Antichain, NothingInvented, WalkComplete, "
    "ExactWhenStatic and the termination measure are checked by TLC; every transition is replayed with a real trie, "
    "fog and cache, the real walk is then continued to completion and judged against the real history of contents")
add("C10", "tlc-hexary", "KeyAfterIsSucc (transcription of _get_key_after equals the strict successor defined on the "
    "key set), FirstIsMin, PreorderItemsSorted, PreorderIsTraverse on every reachable trie, and OrderedIsPreorder on "
    "the fog-walk specification restricted to the left-most prefix (the loop of nodes()); for every reachable "
    "state the real keys/items/values/nodes/next are compared with the emitted sequences and answers")
T_S2C = ("TLA+ specification model checked exhaustively with TLC and simulated; bound to the code by replaying every "
         "TLC-generated transition / state table (and random long behaviours) on the real code through its public API")
add("C12", "tlc-binary", "Canonical (root = BCanon(contents)), MapOK, PrefixFree, RefusalRule (set refused exactly on a "
    "prefix conflict, refused calls change nothing, refused deletes would have changed nothing), AppendOnly and "
    "PastRootsReadable are model checked over all histories of set / delete / delete_subtrie (and Checkout: root_hash / "
    "root_node pointed back at an earlier root); every transition is "
    "replayed and get / exists / root hash / exception class / earlier roots compared; generated histories of the real "
    "code (and, thorough, the recorded executions of the repository's own BinaryTrie tests) are validated by TLC "
    "against Trace_Binary.tla")
add("C13", "tlc-binary", "BranchOrRefusal, BranchConfirms, BranchUnforgeable (every subset of the branch with the rest "
    "of the database), ExistsIffPrefix, TrieNodesExact, WitnessSound, WitnessSufficient, WitnessRefusal are invariants "
    "of every reachable trie; for every reachable state the real helpers are run on every key / prefix and "
    "if_branch_valid is offered every corrupted branch (node removed, truncated, node altered, branch of another "
    "key) with every claimed value")
add("C14", "tlc-smt", "IsFull (tree = FullTree(contents)), GetMatches, ClearedIsInitial, BranchVerifies and "
    "UpdateListIsPath are model checked over all histories of set / delete with blank and non-blank default for "
    "key sizes 1, 2 and 8 (thorough 32); every transition replayed: root, get, exists, branch, calc_root, returned "
    "hashes, from_db; generated histories of the real code (and, thorough, the recorded executions of the "
    "repository's own SparseMerkleTree tests) are validated by TLC against Trace_SMT.tla")
add("C15", "tlc-smt", "ProofInSync and ShortestListSuffices are model checked with any tracked key, every update "
    "stream of bounded length and every truncation length of the streamed hash list, key sizes 1, 2, 8 and 32 with "
    "key pairs whose difference is a long run of ones; every transition replayed on a real SparseMerkleProof "
    "(refusal exactly when too short, proof unchanged by a refusal, value / branch / root equal to the tree's)")
add("C16", "tlc-codec", "exhaustive enumeration by TLC of a bounded input domain (all nibble sequences up to length 3 "
    "(thorough 4) with and without terminator, all bit strings up to length 9 (13), all byte strings of length <= 1 "
    "(2), every (type byte, length) node shape); the round-trip laws are invariants over the TLA+ definitions and every "
    "row is run through the real encode/decode/parse functions; recorded real calls on longer random inputs are "
    "recomputed by TLC; database nodes of replayed hexary behaviours are re-classified",
    technique="TLA+ definitions of the encodings enumerated and checked by TLC over a bounded domain; the emitted table is "
    "replayed through the real functions, and recorded real calls are recomputed by TLC", category="exploration",
    note="a state-based method adds least here: TLA+ serves as an executable mathematical definition and TLC as an "
    "exhaustive enumerator; exhaustive within the stated bound, random beyond; the definitions are my reading of the "
    "Yellow Paper and of the binary node format")
add("C18", "tlc-rejects", "Rejected(entry, kind) is enabled in every state of the hexary, binary, sparse-Merkle and fog "
    "specifications and leaves every variable unchanged, so TLC interleaves an ill-formed call at any point of any "
    "history and every invariant holds on every continuation; replayed with concrete ill-typed / ill-sized values: "
    "exception class as tabulated, root / database / reference counts / buffers identical before and after, and any "
    "later divergence that disappears when the refused calls are removed from the behaviour is a C18 finding")


def build():
    engines = [{"name": n, "path": p, "serves_properties": sorted(k for k, v in CHECKS.items() if v[0] == n),
                "kind_free_text": t} for n, (p, t) in ENGINES.items()]
    checks = []
    for pid in ALL:
        if pid not in CHECKS:
            continue
        eng, cat, text, ref, tech, note = CHECKS[pid]
        checks.append({
            "property_id": pid,
            "quick_cmd": f"./check {pid} --tier quick",
            "thorough_cmd": f"./check {pid} --tier thorough",
            "evidence_file": f"evidence/{pid}.json",
            "replay_cmd_template": f"./check {pid} --replay {{path}}",
            "engine": eng,
            "level_claimed": {"category": cat, "text": text, "design_ref": ref},
            "level_note": note,
            "technique": tech,
        })
    na = [{"property_id": p, "reason": "check under construction (specification and harness for it not yet "
           "registered); see DESIGN.md section 6 for the plan"} for p in ALL if p not in CHECKS]
    return {
        "version": 1,
        "setup_cmd": "cd /verif && ./setup.sh",
        "hooks": {
            "guard": "ETHEREUM_PY_TRIE_VERIF",
            "enable": "no in-repo hooks: py-trie is a sequential library whose whole state (db dict, root_hash, "
                      "ref_count, ScratchDB cache, fog) is observable through its public API, so the harness records "
                      "events from outside; the guard name is reserved and unused",
            "baseline_off_cmd": "cd /repo && /venv/bin/python -m pytest -ra -q -p no:cacheprovider --timeout=900 "
                                "--continue-on-collection-errors",
            "source_commits": [],
            "add_only": True,
        },
        "engines": engines,
        "checks": checks,
        "not_applicable": na,
        "notes": "Three genuine defects were repaired in /repo with fix: commits (see known_findings.json, DESIGN.md "
                 "section 1).",
    }


if __name__ == "__main__":
    m = build()
    with open(os.path.join(HERE, "MANIFEST.json"), "w") as fh:
        json.dump(m, fh, indent=1)
        fh.write("\n")
    import jsonschema

    jsonschema.validate(m, json.load(open("/root/.vp/MANIFEST.schema.json")))
    print("MANIFEST.json written:", [c["property_id"] for c in m["checks"]])
