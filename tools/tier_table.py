#!/usr/bin/env python3
"""tools/tier_table.py [evidence dir]: the table of DESIGN.md 7.1 from the evidence files of the last run."""
import glob, json, sys
d = sys.argv[1] if len(sys.argv) > 1 else "/verif/evidence"
print("| property | tier | wall | TLC runs (exhaustive / simulated) | distinct states | transitions | behaviours replayed on the code "
      "| real calls made from state tables | recorded traces / steps validated by TLC |")
print("|---|---|---|---|---|---|---|---|---|")
for f in sorted(glob.glob(d + "/C*.json")):
    e = json.load(open(f)); c = e["coverage"]
    runs = c.get("tlc_runs", [])
    ex = [r for r in runs if r.get("mode") == "exhaustive"]; si = [r for r in runs if r.get("mode") == "simulate"]
    print(f"| {e['property_id']} | {e['tier']} | {round(e['wall_s'])} s | {len(ex)} / {len(si)} | {c.get('states', 0):,} | {c.get('transitions', 0):,} "
          f"| {c.get('behaviours_replayed', 0):,} | {c.get('real_calls_in_state_tables', 0):,} "
          f"| {c.get('recorded_traces_validated', 0):,} / {c.get('trace_steps_validated', 0):,} |")
