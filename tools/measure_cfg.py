#!/usr/bin/env python3
"""tools/measure_cfg.py Cnn <index> [tier]: run ONE exhaustive configuration of a hexary check
(the index-th of its tier list) with its replay and print states / emitted / seconds.
For calibrating tiers; writes no evidence."""
import sys, time, json
sys.path.insert(0, "/verif")
from harness import checks_hexary as ch
from harness.common import Report

prop, idx = sys.argv[1], int(sys.argv[2])
tier = sys.argv[3] if len(sys.argv) > 3 else "thorough"
captured = []
orig = ch.generic
def fake(prop, tier_, quick, thorough, **kw):
    captured.append((quick if tier_ == "quick" else thorough, kw))
    raise SystemExit
ch.generic = fake
try:
    ch.CHECKS[prop](tier)
except SystemExit:
    pass
lst, kw = captured[0]
rep = Report(prop, tier, ch.LEVEL)
t = time.time()
ch.run_spec_to_code(rep, ch.cfg(**lst[idx]), kw.get("opts", ()))
print(json.dumps(rep.cov["tlc_runs"]), round(time.time() - t, 1), "s; violations:", len(rep.violations), [v["clause"] for v in rep.violations[:5]], "notes:", rep.notes)
