#!/bin/sh
# tools/run_seeded.sh <tier> [ids...]: for every seeded change run the check of the property it breaks
# (against a scratch copy of /repo with the patch applied) and append one line to seeded/RESULTS.txt
tier="${1:-quick}"; shift
ids="$*"; [ -z "$ids" ] && ids=$(ls /verif/seeded | grep -E "^C[0-9]+-")
for id in $ids; do
  prop=$(echo "$id" | cut -c1-3)
  out=$(/verif/tools/try_mutant.sh /verif/seeded/$id/patch.diff "$tier" "$prop" 2>&1)
  st=$(echo "$out" | grep -o "\[$prop exit=[0-9]*\]" | grep -o "[0-9]*\]" | tr -d ']')
  cl=$(echo "$out" | grep "clause=" | sed 's/ detail=.*//' | sort | uniq -c | sort -rn | head -3 | awk '{print $2}' | tr '\n' ' ')
  echo "$id tier=$tier check=$prop exit=$st $cl"
done
