#!/usr/bin/env python3
"""tools/import_mutants.py <dir with Cnn.out*/x*/{patch.diff,demo.py,meta.json,verify.json}>:
copy every confirmed change that is not yet under /verif/seeded into /verif/seeded/<Cnn>-<name>/"""
import glob, json, os, shutil, sys
src = sys.argv[1]
n = 0
for d in sorted(glob.glob(os.path.join(src, "C*.out*", "[mnpqrs][0-9]"))):
    if not os.path.exists(d + "/verify.json"):
        continue
    ver = json.load(open(d + "/verify.json"))
    prop = d.split("/")[-2][:3]
    sid = f"{prop}-{os.path.basename(d)}"
    dst = f"/verif/seeded/{sid}"
    if os.path.exists(dst) or not ver["confirmed"]:
        continue
    os.makedirs(dst)
    shutil.copy(d + "/patch.diff", dst)
    shutil.copy(d + "/demo.py", dst)
    meta = json.load(open(d + "/meta.json"))
    json.dump({"id": sid, "property": prop,
               "origin": "written by a fresh sub-agent that was given only the text of the property and a scratch git worktree of /repo (nothing from /verif)",
               "summary": meta.get("summary"), "needs_to_manifest": meta.get("needs_to_manifest"),
               "files_touched": meta.get("files_touched"),
               "confirmed_by_me": {"how": "tools/verify_mutant.sh (scratch copy of /repo HEAD; demo on the clean copy; git apply; import; demo with the patch; pinned suite with the patch; copy removed)",
                                   **{k: ver[k] for k in ("demo_exit_on_clean_tree", "demo_exit_with_patch", "imports_with_patch",
                                                         "suite_passed_with_patch", "suite_failing_with_patch",
                                                         "suite_matches_baseline", "confirmed")}}},
              open(dst + "/meta.json", "w"), indent=1)
    n += 1
    print("imported", sid)
print(n, "imported")
