#!/bin/sh
# tools/verify_mutant.sh <dir containing patch.diff and demo.py>
# Confirms in a scratch copy of /repo (outside /repo and /verif): the demo passes on the clean tree, the
# patch applies, the demo fails with it, and the pinned test suite still gives 215 passed with the same
# three pre-existing failures.  Writes <dir>/verify.json.  Removes the scratch copy.
d="$1"
work=$(mktemp -d /tmp/verif-vm-XXXXXX)
git -C /repo archive HEAD | tar -x -C "$work"
cd "$work" || exit 2
/venv/bin/python "$d/demo.py" > "$work/.demo_clean.txt" 2>&1; clean=$?
git init -q . && git apply --whitespace=nowarn "$d/patch.diff"; applied=$?
/venv/bin/python "$d/demo.py" > "$work/.demo_mut.txt" 2>&1; mut=$?
/venv/bin/python -c "import sys; sys.path.insert(0,'.'); import trie, trie.hexary, trie.binary, trie.smt, trie.fog, trie.iter, trie.branches" > "$work/.import.txt" 2>&1; imp=$?
/venv/bin/python -m pytest -ra -q -p no:cacheprovider --timeout=900 --continue-on-collection-errors > "$work/.suite.txt" 2>&1
passed=$(grep -Eo "[0-9]+ passed" "$work/.suite.txt" | tail -1 | grep -Eo "[0-9]+")
failing=$(grep -E "^(FAILED|ERROR) " "$work/.suite.txt" | sed 's/ - .*//' | sort | tr '\n' ';')
python3 - "$d" "$clean" "$applied" "$mut" "$imp" "$passed" "$failing" "$work" <<'PY'
import json, sys
d, clean, applied, mut, imp, passed, failing, work = sys.argv[1:]
exp = "ERROR tests/core/test_iter.py;FAILED scripts/release/test_package.py::test_install_local_wheel;FAILED tests/core/test_hexary_trie.py::test_fixtures_exist;"
ok = clean == "0" and applied == "0" and mut == "1" and imp == "0" and passed == "215" and failing == exp
out = {"demo_exit_on_clean_tree": int(clean), "patch_applies": applied == "0", "demo_exit_with_patch": int(mut),
       "imports_with_patch": imp == "0", "suite_passed_with_patch": int(passed or 0), "suite_failing_with_patch": failing,
       "suite_matches_baseline": passed == "215" and failing == exp, "confirmed": ok,
       "demo_output_with_patch": open(work + "/.demo_mut.txt").read()[-600:]}
json.dump(out, open(d + "/verify.json", "w"), indent=1)
print(d, "CONFIRMED" if ok else "NOT-CONFIRMED", {k: v for k, v in out.items() if k not in ("demo_output_with_patch",)})
PY
cd /; rm -rf "$work"
