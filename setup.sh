#!/bin/sh
# Offline setup: parse every TLA+ module, byte-compile the harness. Fetches nothing.
set -e
cd "$(dirname "$0")"
tmp=$(mktemp -d)
cp spec/*.tla "$tmp"/
for f in "$tmp"/*.tla; do
  case "$(basename "$f")" in
    Trace_*) continue ;;   # trace modules read IOEnv.TRACE_FILE when evaluated; they are parsed by the checks that use them
  esac
  (cd "$tmp" && java -cp /opt/veriftools/tla/tla2tools.jar:/opt/veriftools/tla/CommunityModules-deps.jar tla2sany.SANY "$(basename "$f")" >/dev/null 2>&1) || { echo "SANY failed on $f"; rm -rf "$tmp"; exit 1; }
done
rm -rf "$tmp"
/venv/bin/python -m compileall -q harness check >/dev/null
/venv/bin/python -c "import sys; sys.path.insert(0,'/verif'); from harness import common; common.import_repo(); import rlp, eth_hash.auto"
mkdir -p evidence replays
echo "setup ok"
