----------------------------- MODULE MC_Binary -----------------------------
EXTENDS BinaryTrie, Json, TLCExt
RECURSIVE ByteBits(_, _)
ByteBits(b, n) == IF n = 0 THEN <<>> ELSE ByteBits(b \div 2, n - 1) \o <<b % 2>>
RECURSIVE Bits(_)
Bits(bs) == IF bs = <<>> THEN <<>> ELSE ByteBits(Head(bs), 8) \o Bits(Tail(bs))
\* keys diverging at the first, a middle and the last bit of a byte; byte-prefixes of others
KBytes == { <<0>>, <<1>>, <<128>>, <<16>>, <<0, 0>>, <<0, 1>>, <<0, 128>>, <<128, 0, 0>>, <<128, 0, 1>>, <<255>> }
KSmallBytes == { <<0>>, <<1>>, <<128>>, <<0, 1>>, <<0, 128>>, <<128, 0, 1>> }
LExtraBytes == { <<0, 0, 0>>, <<128, 0>>, <<64>>, <<1, 1>>, <<128, 0, 0, 0>>, <<255, 255>> }
KFull == {Bits(b) : b \in KBytes}
KSmall == {Bits(b) : b \in KSmallBytes}
LFull == KFull \cup {Bits(b) : b \in LExtraBytes}
LSmall == KSmall \cup {Bits(b) : b \in LExtraBytes} \cup {Bits(<<0>>), Bits(<<0,0>>)}
V3 == { [tag |-> 120, len |-> 1], [tag |-> 121, len |-> 2], [tag |-> 122, len |-> 40] }
V2 == { [tag |-> 120, len |-> 1], [tag |-> 122, len |-> 40] }
Bounded(n) == Init /\ [][TLCGet("level") < n /\ Next]_vars
BoundedR(n) == Init /\ [][TLCGet("level") < n /\ (Next \/ NextR)]_vars
SpecRL3 == BoundedR(3)
SpecRL4 == BoundedR(4)
SpecRL5 == BoundedR(5)
BoundedC(n) == Init /\ [][TLCGet("level") < n /\ (Next \/ NextC)]_vars
SpecCL4 == BoundedC(4)
SpecCL5 == BoundedC(5)
SpecCL6 == BoundedC(6)
ViewHist == <<root, contents, hist>>
BoundedF(n) == Init /\ [][TLCGet("level") < n /\ (Next \/ NextFSet)]_vars
KTinyB == {Bits(<<1>>), Bits(<<0, 1>>), Bits(<<0, 128>>)}
LTinyB == KTinyB \cup {Bits(<<0>>), Bits(<<0, 1, 0>>)}
SpecFL4 == BoundedF(4)
SpecFL5 == BoundedF(5)
SpecFL6 == BoundedF(6)
SpecL4 == Bounded(4)
SpecL5 == Bounded(5)
SpecL6 == Bounded(6)
SpecL7 == Bounded(7)
View == <<root, contents>>
ViewFull == <<root, db, contents, past>>
\* observables as operators of a VALUE (see MC_Hexary.tla: nothing recursive is evaluated under a prime)
Cur == [root |-> root, db |-> db, contents |-> contents, past |-> past]
LookJ(c) == {<<k, JV(ModelVal(c, k))>> : k \in LookupKeys}
ObsOf(s) == [root |-> JB(s.root), look |-> LookJ(s.contents), db |-> {JB(n) : n \in s.db},
             pasts |-> {[r |-> JB(p.r), look |-> LookJ(p.c)] : p \in s.past},
             nodes |-> {JB(n) : n \in AllSub(s.root)}]
Emit == PrintT(ToJson([h |-> hist', st |-> ObsOf(Cur')]))
EmitSt == PrintT(ToJson([h |-> hist, st |-> ObsOf(Cur)]))
\* C13 tables, per state
BrTableOf(s) == {LET b == BranchOf(s.root, k) IN
                 [k |-> k, ok |-> b.ok, b |-> [i \in 1..Len(b.b) |-> JB(b.b[i])], v |-> JV(ModelVal(s.contents, k)),
                  stored |-> ModelVal(s.contents, k) # NoVal, conflict |-> Conflict(s.contents, k)] : k \in LookupKeys}
ExTableOf(s) == {[p |-> p, e |-> \E k \in Live(s.contents) : StartsWith(k, p)] : p \in LookupKeys \cup {<<>>}}
WitTableOf(s) == {LET w == WitnessOf(s.root, p) IN
                  [p |-> p, ok |-> w.ok, w |-> [i \in 1..Len(w.b) |-> JB(w.b[i])],
                   past |-> \E k \in Live(s.contents) : StartsWith(p, k) /\ p # k] : p \in LookupKeys \cup {<<>>}}
Obs13Of(s) == [br |-> BrTableOf(s), ex |-> ExTableOf(s), wit |-> WitTableOf(s)] @@ ObsOf(s)
EmitSt13 == PrintT(ToJson([h |-> hist, st |-> Obs13Of(Cur)]))
=============================================================================
