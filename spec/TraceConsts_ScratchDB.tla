---- MODULE TraceConsts_ScratchDB ----
(* stub: replaced in the scratch copy by literal constants generated from the trace batch *)
TKeys == {"a"}
TVals == {"x"}
TExits == {"Exception", "BaseException"}
====
