---------------------------- MODULE MC_CodecFull ----------------------------
(* The thorough domain of the codec table (C16): all nibble sequences up to length 4, all bit   *)
(* strings up to length 13, byte strings of length <= 2, every node shape.                      *)
EXTENDS MC_Codec
DFull == NibDom(4) \cup BitDom(13) \cup ByteDom1 \cup ByteDom2 \cup ShapeDom
=============================================================================
