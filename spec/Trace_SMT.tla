----------------------------- MODULE Trace_SMT -----------------------------
(***************************************************************************)
(* Code -> specification for SparseMerkleTree / SparseMerkleProof: histories *)
(* of the real code (key sizes up to 32 bytes, random and adversarially      *)
(* close keys, truncated update lists) are recorded with the real tree       *)
(* decoded back into the collapsed normal form; every event is matched with  *)
(* the action of SMT.tla of the same name and judged by named clauses.       *)
(* One batch = one key size (Depth is a constant of the specification).      *)
(***************************************************************************)
EXTENDS SMT, TraceConsts_SMT, Json, IOUtils, TLCExt
Traces == JsonDeserialize(IOEnv.TRACE_FILE)
Big == 100000
VARIABLES tid, l, bad
tvars == <<vars, tid, l, bad>>

V(j) == [tag |-> j[1], len |-> j[2]]
RECURSIVE Inflate(_, _)
Inflate(j, h) == CASE j[1] = "D" -> DefN(default, j[2])
                   [] j[1] = "V" -> ValN(default, V(<<j[2], j[3]>>))
                   [] j[1] = "P" -> PairN(default, Inflate(j[2], h - 1), Inflate(j[3], h - 1), h)
InflSeq(s) == [i \in 1..Len(s) |-> Inflate(s[i], Depth - i)]
Tr == Traces[tid]
Fail(c) == PrintT(ToJson([fail |-> <<tid, l, c>>]))

TraceInit == /\ Init /\ default = V(Traces[1].dflt)
             /\ tid = 1 /\ l = 1 /\ bad = FALSE

Act(ev) == CASE ev.a = "set" -> Set(ev.k, V(ev.v), ev.m)
             [] ev.a = "delete" -> Delete(ev.k, ev.m)
             [] ev.a = "track" -> Track(ev.k)

Clauses(ev) ==
  LET obs == Inflate(ev.st.root, Depth) IN
  {
   <<"C14.root", ev.a = "track" \/ obs = FullTree(contents', <<>>, Depth)>>,
   <<"mirror.root", obs = tree'>>,
   <<"C14.updlist", ev.a \in {"set", "delete"} => InflSeq(ev.upd) = PathBelow(obs, ev.k)>>,
   <<"C14.reads", \A i \in 1..Len(ev.st.look) :
                     LET e == ev.st.look[i]
                         want == contents'[e.k] IN
                     /\ (e.g = "val") = (want # Blank)
                     /\ (e.g = "val" => V(e.v) = want /\ InflSeq(e.br) = Sibs(obs, e.k) /\ e.calc)>>,
   <<"C14.cleared", (\A k \in Keys : contents'[k] = default) => ev.st.isinitial>>,
   <<"C15.refusal", (ev.a \in {"set", "delete"} /\ tracking) => (ev.refused = Refused(ev.k, ev.m))>>,
   <<"C15.unchanged", ev.a \in {"set", "delete"} /\ tracking /\ ev.refused => ev.proofsame>>,
   <<"C15.insync", tracking' => /\ V(ev.st.pvalue) = contents'[tracked']
                                /\ InflSeq(ev.st.pbranch) = Sibs(obs, tracked')
                                /\ ev.st.prootok>>
  }

StepEv ==
  /\ tid <= Len(Traces) /\ ~bad /\ l <= Len(Tr.ev)
  /\ LET ev == Tr.ev[l] IN
     /\ Act(ev)
     /\ LET failing == {c \in Clauses(ev) : ~c[2]} IN
        /\ \A c \in failing : Fail(c[1])
        /\ bad' = (failing # {})
  /\ l' = l + 1 /\ tid' = tid
Finish ==
  /\ tid <= Len(Traces) /\ (bad \/ l > Len(Tr.ev))
  /\ PrintT(ToJson([done |-> tid, steps |-> l - 1]))
  /\ tid' = tid + 1 /\ l' = 1 /\ bad' = FALSE
  /\ default' = IF tid < Len(Traces) THEN V(Traces[tid + 1].dflt) ELSE Blank
  /\ tree' = DefN(default', Depth) /\ contents' = [k \in Keys |-> default']
  /\ tracking' = FALSE /\ tracked' = <<>> /\ pvalue' = Blank /\ pbranch' = <<>>
  /\ ops' = 0 /\ last' = [a |-> "init"] /\ hist' = <<>>
TraceNext == StepEv \/ Finish
TraceSpec == TraceInit /\ [][TraceNext]_tvars
=============================================================================
