SPECIFICATION Spec
CONSTANTS
  Keys <- KQuick
  LookupKeys <- LQuick
  Vals <- VQuick
  MaxLive = 3
  MaxBatchOps = 2
  MaxLost = 0
  PruneModes <- Both
  Features <- FBatch
  Bugs <- NoBugs
INVARIANT Canonical
CONSTRAINT Lvl5
VIEW ViewLight
ACTION_CONSTRAINT EmitAll
CHECK_DEADLOCK FALSE
