SPECIFICATION TraceSpec
CONSTANTS
  Keys <- TKeys
  Vals <- TVals
  ExitKinds <- TExits
CHECK_DEADLOCK FALSE
