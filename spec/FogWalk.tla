------------------------------ MODULE FogWalk ------------------------------
(***************************************************************************)
(* A fog-guided walk over a HexaryTrie, interleaved with mutations (C09),   *)
(* and the deterministic left-to-right walk of NodeIterator.nodes() (C10).  *)
(*                                                                         *)
(* The trie is Canon(contents) (justified by C02, re-checked by the replay,  *)
(* which runs a real trie); node bodies readable from the database are       *)
(* everything ever stored when not pruning and exactly Stored(Canon) when    *)
(* pruning (C04 / C06).  The walker owns a fog, optionally a frontier cache  *)
(* (prefix -> parent node body in hand + segment), and the set `met` of      *)
(* key/value pairs it has seen.  One walker step is one round of the loop    *)
(* of the documented usage: query the fog, traverse (from the root or from   *)
(* the cached parent), on TraversedPartialPath use the simulated node, on    *)
(* MissingTraversalNode through a stale cache entry drop the entry, else     *)
(* explore() and update the cache.                                          *)
(***************************************************************************)
EXTENDS MPT
CONSTANTS Keys, Vals, MaxLive, MaxMuts, CacheModes, PruneModes, StartAll,
          WalkFeatures     \* subset of {"batch", "rewrite"}: further ways of modifying the trie mid-walk
VARIABLES prune, usecache, contents, fog, cache, met, changed, ever, muts, last, hist
vars == <<prune, usecache, contents, fog, cache, met, changed, ever, muts, last, hist>>

Live(c) == {x \in Keys : c[x] # NoVal}
AsMap(c) == [k \in Live(c) |-> c[k]]
Tree == Canon(AsMap(contents))
Readable == IF prune THEN Only(Stored(Tree)) ELSE Complete
NoCacheF == [p \in {} |-> 0]
PairsOf(c) == {<<k, c[k]>> : k \in Live(c)}

Log(rec) == hist' = Append(hist, rec) /\ last' = rec

Init == /\ prune \in PruneModes /\ usecache \in CacheModes
        /\ contents \in {c \in [Keys -> Vals \cup {NoVal}] :
                           /\ Cardinality(Live(c)) <= MaxLive
                           /\ (StartAll \/ Cardinality(Live(c)) = MaxLive \/ Live(c) = {})}
        /\ fog = {<<>>} /\ cache = NoCacheF
        /\ met = {} /\ changed = {} /\ ever = PairsOf(contents)
        /\ muts = 0
        /\ last = [a |-> "init"]
        /\ hist = << [a |-> "init", prune |-> prune, cache |-> usecache,
                      pairs |-> {<<k, JV(contents[k])>> : k \in Live(contents)}] >>

SubSet(n) == {SubSegs(n)[i] : i \in 1..Len(SubSegs(n))}
\* the walker learns `node` at prefix p: explore, remember the value, refresh the cache
Record(p, node) ==
  /\ fog' = (fog \ {p}) \cup {p \o s : s \in SubSet(node)}
  /\ met' = IF NodeValue(node) # NoVal THEN met \cup {<<p \o Suffix(node), NodeValue(node)>>} ELSE met
  /\ cache' = IF usecache
              THEN [q \in (DOMAIN cache \ {p}) \cup {p \o s : s \in SubSet(node)} |->
                      IF \E s \in SubSet(node) : q = p \o s
                      THEN [n |-> node, seg |-> Drop(q, Len(p))] ELSE cache[q]]
              ELSE cache

\* one round of the walking loop for the unexplored prefix p
Step(p) ==
  /\ p \in fog
  /\ LET viaCache == usecache /\ p \in DOMAIN cache
         o == IF viaCache THEN TravFrom(cache[p].n, cache[p].seg, Readable)
              ELSE TravRoot(Tree, p, Readable)
         node == IF o.kind = "partial" THEN Sim(o) ELSE o.n
     IN /\ IF o.kind = "missing"
           THEN \* only possible through a stale cache entry: drop it, retry from the root later
                /\ cache' = [q \in DOMAIN cache \ {p} |-> cache[q]]
                /\ UNCHANGED <<fog, met>>
           ELSE Record(p, node)
        /\ Log([a |-> "step", p |-> p, via |-> IF viaCache THEN "cache" ELSE "root", kind |-> o.kind,
                subs |-> IF o.kind = "missing" THEN <<>> ELSE SubSegs(node),
                v |-> IF o.kind = "missing" THEN JV(NoVal) ELSE JV(NodeValue(node)),
                suffix |-> IF o.kind = "missing" THEN <<>> ELSE Suffix(node)])
  /\ UNCHANGED <<prune, usecache, contents, changed, ever, muts>>

\* the trie is modified between two rounds (insert, overwrite, delete)
Mutate(k, v) ==
  /\ muts < MaxMuts /\ fog # {}
  /\ contents[k] # v
  /\ Cardinality(Live(contents) \cup (IF v = NoVal THEN {} ELSE {k})) <= MaxLive
  /\ contents' = [contents EXCEPT ![k] = v]
  /\ changed' = changed \cup {k}
  /\ ever' = IF v = NoVal THEN ever ELSE ever \cup {<<k, v>>}
  /\ muts' = muts + 1
  /\ Log([a |-> "mutate", k |-> k, v |-> JV(v)])
  /\ UNCHANGED <<prune, usecache, fog, cache, met>>

\* the trie is modified by a squash_changes batch of two operations, committed or left by an
\* exception (then nothing changes: neither the contents nor anything the walker can see)
BatchMutate(k1, v1, k2, v2, commit) ==
  /\ "batch" \in WalkFeatures /\ muts < MaxMuts /\ fog # {}
  /\ LET c1 == [contents EXCEPT ![k1] = v1]
         c2 == [c1 EXCEPT ![k2] = v2]
         touched == {k \in {k1, k2} : c2[k] # contents[k]}
     IN /\ Cardinality(Live(c1)) <= MaxLive /\ Cardinality(Live(c2)) <= MaxLive
        /\ contents' = IF commit THEN c2 ELSE contents
        /\ changed' = IF commit THEN changed \cup touched ELSE changed
        /\ ever' = IF commit THEN ever \cup {<<k, c2[k]>> : k \in {x \in touched : c2[x] # NoVal}} ELSE ever
  /\ muts' = muts + 1
  /\ Log([a |-> "batch", k1 |-> k1, v1 |-> JV(v1), k2 |-> k2, v2 |-> JV(v2), commit |-> commit])
  /\ UNCHANGED <<prune, usecache, fog, cache, met>>
\* a key is written again with the value it already has (nothing changes for the walker)
Rewrite(k) ==
  /\ "rewrite" \in WalkFeatures /\ muts < MaxMuts /\ fog # {} /\ contents[k] # NoVal
  /\ muts' = muts + 1
  /\ Log([a |-> "mutate", k |-> k, v |-> JV(contents[k])])
  /\ UNCHANGED <<prune, usecache, contents, fog, cache, met, changed, ever>>

Next == \/ \E p \in fog : Step(p)
        \/ \E k \in Keys : \E v \in Vals \cup {NoVal} : Mutate(k, v)
        \/ ("batch" \in WalkFeatures /\ \E k1 \in Keys : \E k2 \in Keys : \E v1 \in Vals \cup {NoVal} :
               \E v2 \in Vals \cup {NoVal} : \E c \in BOOLEAN : BatchMutate(k1, v1, k2, v2, c))
        \/ ("rewrite" \in WalkFeatures /\ \E k \in Keys : Rewrite(k))
Spec == Init /\ [][Next]_vars
\* NodeIterator.nodes(): always the left-most unexplored prefix, cache on, no mutation
LeftMost == CHOOSE p \in fog : \A q \in fog : p = q \/ SeqLess(p, q)
NextOrdered == fog # {} /\ Step(LeftMost)
SpecOrdered == Init /\ [][NextOrdered]_vars

---------------------------------------------------------------------------
\* PROPERTIES (C09)
Antichain == \A p \in fog : \A q \in fog : p # q => ~StartsWith(p, q)
NothingInvented == met \subseteq ever
WalkComplete == fog = {} => \A k \in Live(contents) \ changed : <<k, contents[k]>> \in met
ExactWhenStatic == (fog = {} /\ muts = 0) => met = PairsOf(contents)
\* a stale cache entry is the only way to a missing node (the database of a pruning
\* trie holds every node of the current trie)
MissingOnlyViaCache == [][(last'.a = "step" /\ last'.kind = "missing") => last'.via = "cache"]_vars
\* termination: every successful round strictly decreases Measure, a cache drop keeps
\* it and shrinks the cache; mutations are bounded
RECURSIVE Pow17(_)
Pow17(n) == IF n <= 0 THEN 1 ELSE 17 * Pow17(n - 1)
MaxDepth == 7
RECURSIVE SumW(_)
SumW(S) == IF S = {} THEN 0 ELSE LET p == CHOOSE p \in S : TRUE IN Pow17(MaxDepth - Len(p)) + SumW(S \ {p})
Measure == SumW(fog)
DepthBounded == \A p \in fog : Len(p) <= MaxDepth
Terminates == [][last'.a = "step" =>
                   IF last'.kind = "missing"
                   THEN fog' = fog /\ Cardinality(DOMAIN cache') < Cardinality(DOMAIN cache)
                   ELSE SumW(fog') < SumW(fog)]_vars
\* C10: the ordered walk (NodeIterator.nodes) visits the nodes of the canonical trie in pre-order
RECURSIVE StepsOf(_, _)
StepsOf(h, i) == IF i > Len(h) THEN <<>>
                 ELSE (IF h[i].a = "step" THEN << [p |-> h[i].p, subs |-> h[i].subs, v |-> h[i].v,
                                                   suffix |-> h[i].suffix] >> ELSE <<>>) \o StepsOf(h, i + 1)
PreSteps == LET pre == Preorder(Tree, <<>>) IN
            [i \in 1..Len(pre) |-> [p |-> pre[i].p, subs |-> SubSegs(pre[i].n), v |-> JV(NodeValue(pre[i].n)),
                                     suffix |-> Suffix(pre[i].n)]]
OrderedIsPreorder == (fog = {} /\ muts = 0) => StepsOf(hist, 1) = PreSteps
=============================================================================
