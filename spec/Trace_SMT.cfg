SPECIFICATION TraceSpec
CONSTANTS
  Depth <- TDepth
  Keys <- TKeys
  Vals <- TVals
  Defaults <- TDefaults
  MaxOps <- Big
  Truncations <- TTrunc
CHECK_DEADLOCK FALSE
