------------------------------- MODULE MC_Fog -------------------------------
EXTENDS Fog, Json, TLCExt
Segs == { {}, {<<0>>}, {<<1,2>>}, {<<0,1,15>>}, {<<0>>,<<1>>}, {<<0>>,<<15>>},
          {<<0>>,<<1>>,<<2>>,<<15>>}, {<<1>>,<<2,0>>}, {<<0,0>>,<<0,1>>,<<15>>}, {<<>>} }
SegsSmall == { {}, {<<0>>}, {<<1,2>>}, {<<0>>,<<15>>}, {<<1>>,<<2,0>>}, {<<>>} }
BadSeqs == { << <<0>>, <<0>> >>, << <<0>>, <<0,1>> >>, << <<>>, <<1>> >>,
             << <<1>>, <<2,0>>, <<2,0,1>> >>, << <<1,2,0>>, <<2>>, <<1,2>> >>, << <<15>>, <<1>>, <<15>> >>,
             << <<1>>, <<2,0>>, <<2,0>> >>, << <<0,1>>, <<2>>, <<0,1>>, <<1,1,1>> >> }
Strange == { <<>>, <<0>>, <<7>>, <<0,0>>, <<1,2,3>> }
Nibs == {0, 1, 2, 15}
Q3 == {<<>>} \cup {<<a>> : a \in Nibs} \cup {<<a, b>> : a \in Nibs, b \in Nibs}
         \cup {<<a, b, c>> : a \in Nibs, b \in Nibs, c \in Nibs}
         \cup {<<0,0,0,0>>, <<0,1,15,15>>, <<1,2,0,0>>, <<15,15,15,15>>, <<7>>, <<0,7>>, <<1,2,7>>}
Bounded(n) == Init /\ [][TLCGet("level") < n /\ Next]_vars
BoundedR(n) == Init /\ [][TLCGet("level") < n /\ (Next \/ NextR)]_vars
SpecRL3 == BoundedR(3)
SpecRL4 == BoundedR(4)
SpecL3 == Bounded(3)
SpecL4 == Bounded(4)
SpecL5 == Bounded(5)
SpecL6 == Bounded(6)
View == fog
ViewHist == <<fog, hist>>
ObsOf(f) == [fog |-> f,
             nu |-> {[q |-> q, acc |-> AcceptNU(f, q), mirror |-> NearestUnknown(f, q)] : q \in QueryKeys},
             nr |-> {[q |-> q, acc |-> AcceptNR(f, q)] : q \in QueryKeys}]
Emit == PrintT(ToJson([h |-> hist', st |-> ObsOf(fog')]))
EmitSt == PrintT(ToJson([h |-> hist, st |-> ObsOf(fog)]))
=============================================================================
