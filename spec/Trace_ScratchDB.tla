-------------------------- MODULE Trace_ScratchDB --------------------------
(* Code -> specification for ScratchDB: recorded histories of the real class on arbitrary      *)
(* byte keys and values, every event matched with the action of ScratchDB.tla of the same name *)
EXTENDS ScratchDB, TraceConsts_ScratchDB, Json, IOUtils, TLCExt
Traces == JsonDeserialize(IOEnv.TRACE_FILE)
VARIABLES tid, l, bad
tvars == <<vars, tid, l, bad>>
Tr == Traces[tid]
Fail(c) == PrintT(ToJson([fail |-> <<tid, l, c>>]))
\* maps are logged as sequences of <<key, value>> pairs (an empty JSON object does not
\* deserialize to a record)
Find(ps, k, dflt) == IF \E i \in 1..Len(ps) : ps[i][1] = k
                     THEN ps[CHOOSE i \in 1..Len(ps) : ps[i][1] = k][2] ELSE dflt
AsFun(w) == [k \in Keys |-> Find(w, k, Absent)]
TraceInit == /\ wrapped = AsFun(Traces[1].w) /\ cache = [k \in Keys |-> Absent] /\ latest = [k \in Keys |-> None]
             /\ open = FALSE /\ dodel = FALSE /\ last = [a |-> "init"] /\ hist = <<>>
             /\ tid = 1 /\ l = 1 /\ bad = FALSE
Act(ev) == CASE ev.a = "write" -> Write(ev.k, ev.v)
             [] ev.a = "delete" -> Delete(ev.k)
             [] ev.a = "enter" -> Enter(ev.d)
             [] ev.a = "exit" -> ExitNormal
             [] ev.a = "raise" -> ExitExc(ev.kind)
Clauses(ev) ==
  LET obs == AsFun(ev.st.wrapped) IN
  {
   <<"C17.wrapped", obs = wrapped'>>,
   <<"C17.written-only-on-commit", ev.a # "exit" => obs = wrapped>>,
   <<"C17.reads", \A i \in 1..Len(ev.st.read) :
                     LET k == ev.st.read[i][1] IN
                     ev.st.read[i][2] = IF latest'[k] \notin {None, DEL} THEN latest'[k]
                                        ELSE IF wrapped'[k] # Absent THEN wrapped'[k] ELSE "KeyError">>,
   <<"C17.contains", \A i \in 1..Len(ev.st.has) :
                        ev.st.has[i][2] = (Find(ev.st.read, ev.st.has[i][1], "unlogged") # "KeyError")>>,
   <<"C17.buffer-emptied", ev.a \in {"exit", "raise"} => ev.st.buffered = 0>>,
   <<"C17.not-swallowed", ev.a = "raise" => ~ev.st.swallowed>>
  }
StepEv ==
  /\ tid <= Len(Traces) /\ ~bad /\ l <= Len(Tr.ev)
  /\ LET ev == Tr.ev[l] IN
     /\ Act(ev)
     /\ LET failing == {c \in Clauses(ev) : ~c[2]} IN
        /\ \A c \in failing : Fail(c[1])
        /\ bad' = (failing # {})
  /\ l' = l + 1 /\ tid' = tid
Finish ==
  /\ tid <= Len(Traces) /\ (bad \/ l > Len(Tr.ev))
  /\ PrintT(ToJson([done |-> tid, steps |-> l - 1]))
  /\ tid' = tid + 1 /\ l' = 1 /\ bad' = FALSE
  /\ wrapped' = IF tid < Len(Traces) THEN AsFun(Traces[tid + 1].w) ELSE [k \in Keys |-> Absent]
  /\ cache' = [k \in Keys |-> Absent] /\ latest' = [k \in Keys |-> None]
  /\ open' = FALSE /\ dodel' = FALSE /\ last' = [a |-> "init"] /\ hist' = <<>>
TraceNext == StepEv \/ Finish
TraceSpec == TraceInit /\ [][TraceNext]_tvars
=============================================================================
