---- MODULE TraceConsts_Hexary ----
(* stub: replaced in the scratch copy by literal constants generated from the trace batch *)
TKeys == {<<>>}
TLook == TKeys
TVals == {[tag |-> 1, len |-> 1]}
====
