---- MODULE TraceConsts_Binary ----
(* stub: replaced in the scratch copy by literal constants generated from the trace batch *)
TKeys == {<<0,0,0,0,0,0,0,0>>}
TLook == TKeys
TVals == {[tag |-> 1, len |-> 1]}
====
