----------------------------- MODULE BinaryTrie -----------------------------
(***************************************************************************)
(* trie.binary.BinaryTrie and the helpers of trie.branches.                 *)
(* Hash abstraction as in MPT.tla: a child reference is the nested child;    *)
(* the database is a set of nodes.  Keys are bit sequences (whole bytes).    *)
(*   DEFINITIONS   : BCanon, BLookup, Conflict, AllSub, StartsWith ...      *)
(*   TRANSCRIPTIONS: BSet (_set/_set_kv_node/_set_branch_node with the      *)
(*                   eight splitting cases and the two compressions),       *)
(*                   BGetH, CheckExist, BranchOf, TrieNodes, WitnessOf      *)
(***************************************************************************)
EXTENDS Naturals, Sequences, FiniteSets, TLC
CONSTANTS Keys,        \* keys that may be written
          Vals,        \* non-empty values
          LookupKeys,  \* keys that are looked up / branch keys / prefixes
          MaxLive
VARIABLES root, db, contents, past, last, hist
vars == <<root, db, contents, past, last, hist>>

NoVal == [tag |-> 0, len |-> 0]
Drop(s, n) == SubSeq(s, n + 1, Len(s))
Take(s, n) == SubSeq(s, 1, IF n < Len(s) THEN n ELSE Len(s))
RECURSIVE CPL(_, _)
CPL(a, b) == IF a = <<>> \/ b = <<>> \/ Head(a) # Head(b) THEN 0 ELSE 1 + CPL(Tail(a), Tail(b))
StartsWith(full, part) == Len(full) >= Len(part) /\ Take(full, Len(part)) = part

BBlank == [t |-> "blank", p |-> <<>>, l |-> <<>>, r |-> <<>>, v |-> NoVal]
Leaf(v) == [t |-> "leaf", p |-> <<>>, l |-> <<>>, r |-> <<>>, v |-> v]
KV(p, c) == [t |-> "kv", p |-> p, l |-> <<c>>, r |-> <<>>, v |-> NoVal]
Br(a, b) == [t |-> "br", p |-> <<>>, l |-> <<a>>, r |-> <<b>>, v |-> NoVal]

\* ------------------------------------------------------------------------
\* DEFINITIONS
\* ------------------------------------------------------------------------
\* canonical node structure of a prefix-free map from bit sequences to values
RECURSIVE BCanon(_)
BCanon(m) ==
  LET K == DOMAIN m IN
  IF K = {} THEN BBlank
  ELSE IF K = {<<>>} THEN Leaf(m[<<>>])
  ELSE LET k0 == CHOOSE k \in K : TRUE
           cp == CHOOSE n \in 0..Len(k0) :
                   /\ \A k \in K : Len(k) >= n /\ Take(k, n) = Take(k0, n)
                   /\ ~ (n < Len(k0) /\ \A k \in K : Len(k) >= n + 1 /\ Take(k, n + 1) = Take(k0, n + 1))
       IN IF cp > 0
          THEN KV(Take(k0, cp), BCanon(TLCEval([k \in {Drop(x, cp) : x \in K} |-> m[Take(k0, cp) \o k]])))
          ELSE Br(BCanon(TLCEval([k \in {Tail(x) : x \in {y \in K : Head(y) = 0}} |-> m[<<0>> \o k]])),
                  BCanon(TLCEval([k \in {Tail(x) : x \in {y \in K : Head(y) = 1}} |-> m[<<1>> \o k]])))
\* value denoted for a key path by a nested node
RECURSIVE BLookup(_, _)
BLookup(n, kp) ==
  CASE n.t = "blank" -> NoVal
    [] n.t = "leaf" -> IF kp # <<>> THEN NoVal ELSE n.v
    [] n.t = "kv" -> IF StartsWith(kp, n.p) /\ kp # <<>> THEN BLookup(n.l[1], Drop(kp, Len(n.p))) ELSE NoVal
    [] n.t = "br" -> IF kp = <<>> THEN NoVal
                     ELSE IF Head(kp) = 0 THEN BLookup(n.l[1], Tail(kp)) ELSE BLookup(n.r[1], Tail(kp))
\* every node reachable from a node (itself included; blank is not a node)
RECURSIVE AllSub(_)
AllSub(n) == CASE n.t = "blank" -> {}
               [] n.t = "leaf" -> {n}
               [] n.t = "kv" -> {n} \cup AllSub(n.l[1])
               [] n.t = "br" -> {n} \cup AllSub(n.l[1]) \cup AllSub(n.r[1])
Live(c) == {k \in Keys : c[k] # NoVal}
AsMap(c) == [k \in Live(c) |-> c[k]]
\* storing under k is refused when k is a proper prefix or an extension of a stored key
Conflict(c, k) == \E a \in Live(c) : a # k /\ (StartsWith(a, k) \/ StartsWith(k, a))
ModelVal(c, k) == IF k \in Keys THEN c[k] ELSE NoVal

\* ------------------------------------------------------------------------
\* TRANSCRIPTION of BinaryTrie._set; result [ok, n, w]: w = nodes written (_hash_and_save)
\* ------------------------------------------------------------------------
Ok(n, w) == [ok |-> TRUE, n |-> n, w |-> w]
Err == [ok |-> FALSE, n |-> BBlank, w |-> {}]
RECURSIVE BSet(_, _, _, _)
SetKV(n, kp, v, ds) ==
  LET left == n.p
      child == n.l[1]
  IN IF ds /\ Len(kp) < Len(left) /\ kp = Take(left, Len(kp)) THEN Ok(BBlank, {})
     ELSE IF StartsWith(kp, left)
          THEN LET r == BSet(child, TLCEval(Drop(kp, Len(left))), v, ds) IN
               IF ~r.ok THEN r
               ELSE IF r.n.t = "blank" THEN Ok(BBlank, r.w)
               ELSE IF r.n.t = "kv" THEN LET x == KV(left \o r.n.p, r.n.l[1]) IN Ok(x, r.w \cup {x})
               ELSE LET x == KV(left, r.n) IN Ok(x, r.w \cup {x})
          ELSE LET cpl == CPL(left, Take(kp, Len(left))) IN
               IF v = NoVal \/ ds THEN Ok(n, {})
               ELSE IF Len(kp) # cpl + 1 /\ Len(kp) <= cpl THEN Err
               ELSE LET lf == Leaf(v)
                        valnode == IF Len(kp) = cpl + 1 THEN lf ELSE KV(Drop(kp, cpl + 1), lf)
                        oldnode == IF Len(left) = cpl + 1 THEN child ELSE KV(Drop(left, cpl + 1), child)
                        newsub == IF kp[cpl + 1] = 1 THEN Br(oldnode, valnode) ELSE Br(valnode, oldnode)
                        top == IF cpl > 0 THEN KV(Take(left, cpl), newsub) ELSE newsub
                    IN Ok(top, {lf, valnode, oldnode, newsub, top} \ {child})
SetBr(n, kp, v, ds) ==
  LET b == Head(kp)
      sub == IF b = 0 THEN n.l[1] ELSE n.r[1]
      r == BSet(sub, TLCEval(Tail(kp)), v, ds)
  IN IF ~r.ok THEN r
     ELSE LET nl == IF b = 0 THEN r.n ELSE n.l[1]
              nr == IF b = 0 THEN n.r[1] ELSE r.n
          IN IF nl.t = "blank" \/ nr.t = "blank"
             THEN LET keep == IF nl.t # "blank" THEN nl ELSE nr
                      bit == IF nr.t # "blank" THEN 1 ELSE 0
                      x == IF keep.t = "kv" THEN KV(<<bit>> \o keep.p, keep.l[1]) ELSE KV(<<bit>>, keep)
                  IN Ok(x, r.w \cup {x})
             ELSE LET x == Br(nl, nr) IN Ok(x, r.w \cup {x})
BSet(n, kp, v, ds) ==
  CASE n.t = "blank" -> IF v # NoVal THEN LET x == KV(kp, Leaf(v)) IN Ok(x, {Leaf(v), x}) ELSE Ok(BBlank, {})
    [] n.t = "leaf" -> IF kp # <<>> THEN Err
                       ELSE IF ds THEN Ok(BBlank, {})
                       ELSE IF v # NoVal THEN Ok(Leaf(v), {Leaf(v)}) ELSE Ok(BBlank, {})
    [] n.t = "kv" -> IF kp = <<>> THEN (IF ds THEN Ok(BBlank, {}) ELSE Err) ELSE SetKV(n, kp, v, ds)
    [] n.t = "br" -> IF kp = <<>> THEN (IF ds THEN Ok(BBlank, {}) ELSE Err) ELSE SetBr(n, kp, v, ds)

\* TRANSCRIPTION of _get over a readable set H ("all" or a set of nodes); "missing" = KeyError
CanRead(H, n) == H.all \/ n \in H.s
AllH == [all |-> TRUE, s |-> {}]
OnlyH(S) == [all |-> FALSE, s |-> S]
GV(v) == [kind |-> "val", v |-> v]
GMissing == [kind |-> "missing", v |-> NoVal]
RECURSIVE BGetH(_, _, _)
BGetH(n, kp, H) ==
  IF n.t = "blank" THEN GV(NoVal)
  ELSE IF ~CanRead(H, n) THEN GMissing
  ELSE CASE n.t = "leaf" -> IF kp # <<>> THEN GV(NoVal) ELSE GV(n.v)
         [] n.t = "kv" -> IF kp = <<>> THEN GV(NoVal)
                          ELSE IF Take(kp, Len(n.p)) = n.p THEN BGetH(n.l[1], Drop(kp, Len(n.p)), H)
                          ELSE GV(NoVal)
         [] n.t = "br" -> IF kp = <<>> THEN GV(NoVal)
                          ELSE IF Head(kp) = 0 THEN BGetH(n.l[1], Tail(kp), H) ELSE BGetH(n.r[1], Tail(kp), H)

\* TRANSCRIPTION of _check_if_branch_exist
RECURSIVE CheckExist(_, _)
CheckExist(n, kp) ==
  CASE n.t = "blank" -> FALSE
    [] n.t = "leaf" -> kp = <<>>
    [] n.t = "kv" -> IF kp = <<>> THEN TRUE
                     ELSE IF Len(kp) < Len(n.p) THEN kp = Take(n.p, Len(kp))
                     ELSE IF Take(kp, Len(n.p)) = n.p THEN CheckExist(n.l[1], Drop(kp, Len(n.p))) ELSE FALSE
    [] n.t = "br" -> IF kp = <<>> THEN TRUE
                     ELSE IF Head(kp) = 0 THEN CheckExist(n.l[1], Tail(kp)) ELSE CheckExist(n.r[1], Tail(kp))
\* TRANSCRIPTION of _get_branch: [ok, b]; ok = FALSE is InvalidKeyError
BrOk(b) == [ok |-> TRUE, b |-> b]
BrErr == [ok |-> FALSE, b |-> <<>>]
RECURSIVE BranchOf(_, _)
BranchOf(n, kp) ==
  CASE n.t = "blank" -> BrOk(<<>>)
    [] n.t = "leaf" -> IF kp = <<>> THEN BrOk(<<n>>) ELSE BrErr
    [] n.t = "kv" -> IF kp = <<>> THEN BrErr
                     ELSE IF Take(kp, Len(n.p)) = n.p
                          THEN LET r == BranchOf(n.l[1], Drop(kp, Len(n.p))) IN
                               IF r.ok THEN BrOk(<<n>> \o r.b) ELSE BrErr
                          ELSE BrOk(<<n>>)
    [] n.t = "br" -> IF kp = <<>> THEN BrErr
                     ELSE LET r == BranchOf(IF Head(kp) = 0 THEN n.l[1] ELSE n.r[1], Tail(kp)) IN
                          IF r.ok THEN BrOk(<<n>> \o r.b) ELSE BrErr
\* TRANSCRIPTION of _get_trie_nodes (a sequence, parents first, left before right)
RECURSIVE TrieNodes(_)
TrieNodes(n) == CASE n.t = "blank" -> <<>>
                  [] n.t = "leaf" -> <<n>>
                  [] n.t = "kv" -> <<n>> \o TrieNodes(n.l[1])
                  [] n.t = "br" -> <<n>> \o TrieNodes(n.l[1]) \o TrieNodes(n.r[1])
\* TRANSCRIPTION of _get_witness_for_key_prefix: [ok, b]; ok = FALSE is InvalidKeyError
RECURSIVE WitnessOf(_, _)
WitnessOf(n, kp) ==
  LET first == IF kp = <<>> THEN TrieNodes(n) ELSE <<>> IN
  CASE n.t = "blank" -> BrOk(first)
    [] n.t = "leaf" -> IF kp # <<>> THEN BrErr ELSE BrOk(first)
    [] n.t = "kv" -> IF Len(kp) < Len(n.p) /\ Take(n.p, Len(kp)) = kp
                     THEN BrOk(first \o <<n>> \o TrieNodes(n.l[1]))
                     ELSE IF Take(kp, Len(n.p)) = n.p
                          THEN LET r == WitnessOf(n.l[1], Drop(kp, Len(n.p))) IN
                               IF r.ok THEN BrOk(first \o <<n>> \o r.b) ELSE BrErr
                          ELSE BrOk(first \o <<n>>)
    [] n.t = "br" -> LET goLeft == kp # <<>> /\ Head(kp) = 0
                         r == WitnessOf(IF goLeft THEN n.l[1] ELSE n.r[1], IF kp = <<>> THEN <<>> ELSE Tail(kp)) IN
                     IF r.ok THEN BrOk(first \o <<n>> \o r.b) ELSE BrErr
SeqSet(s) == {s[i] : i \in 1..Len(s)}

\* ------------------------------------------------------------------------
\* compact JSON form of nodes
\* ------------------------------------------------------------------------
RECURSIVE JB(_)
JB(n) == CASE n.t = "blank" -> <<>>
           [] n.t = "leaf" -> <<"L", n.v.tag, n.v.len>>
           [] n.t = "kv" -> <<"K", n.p, JB(n.l[1])>>
           [] n.t = "br" -> <<"B", JB(n.l[1]), JB(n.r[1])>>
JV(v) == <<v.tag, v.len>>

\* ------------------------------------------------------------------------
\* state machine
\* ------------------------------------------------------------------------
EmptyContents == [k \in Keys |-> NoVal]
Log(rec) == hist' = Append(hist, rec) /\ last' = rec
Init == /\ root = BBlank /\ db = {} /\ contents = EmptyContents
        /\ past = {[r |-> BBlank, c |-> EmptyContents]}
        /\ last = [a |-> "init"] /\ hist = <<>>
Apply(r, newc, rec) ==
  /\ IF r.ok THEN /\ contents' = newc /\ root' = r.n /\ db' = db \cup r.w
                  /\ past' = past \cup {[r |-> r.n, c |-> newc]}
             ELSE UNCHANGED <<contents, root, db, past>>
  /\ Log([rec EXCEPT !.ok = r.ok])
\* set(k, v) with a non-empty value
Set(k, v) == /\ Cardinality(Live(contents) \cup {k}) <= MaxLive
             /\ Apply(BSet(root, k, v, FALSE), [contents EXCEPT ![k] = v],
                      [a |-> "set", k |-> k, v |-> JV(v), ok |-> TRUE])
\* delete(k), del trie[k], set(k, b'')
Del(k) == Apply(BSet(root, k, NoVal, FALSE), [contents EXCEPT ![k] = NoVal],
                [a |-> "del", k |-> k, v |-> JV(NoVal), ok |-> TRUE])
DelSub(p) == Apply(BSet(root, p, NoVal, TRUE),
                   [k \in Keys |-> IF StartsWith(k, p) THEN NoVal ELSE contents[k]],
                   [a |-> "delsub", k |-> p, v |-> JV(NoVal), ok |-> TRUE])
\* C18: ill-formed calls and the exception each must be refused with; nothing changes
BinRejects ==
  { [entry |-> "get", arg |-> "key", kind |-> "notbytes", exc |-> "ValidationError", needs |-> "any"],
    [entry |-> "exists", arg |-> "key", kind |-> "notbytes", exc |-> "ValidationError", needs |-> "any"],
    [entry |-> "getitem", arg |-> "key", kind |-> "notbytes", exc |-> "ValidationError", needs |-> "any"],
    [entry |-> "contains", arg |-> "key", kind |-> "notbytes", exc |-> "ValidationError", needs |-> "any"],
    [entry |-> "delete", arg |-> "key", kind |-> "notbytes", exc |-> "ValidationError", needs |-> "any"],
    [entry |-> "delitem", arg |-> "key", kind |-> "notbytes", exc |-> "ValidationError", needs |-> "any"],
    [entry |-> "delete_subtrie", arg |-> "key", kind |-> "notbytes", exc |-> "ValidationError", needs |-> "any"],
    [entry |-> "check_if_branch_exist", arg |-> "key", kind |-> "notbytes", exc |-> "ValidationError", needs |-> "any"],
    [entry |-> "get_branch", arg |-> "key", kind |-> "notbytes", exc |-> "ValidationError", needs |-> "any"],
    [entry |-> "get_witness_for_key_prefix", arg |-> "key", kind |-> "notbytes", exc |-> "ValidationError", needs |-> "any"],
    [entry |-> "if_branch_valid", arg |-> "key", kind |-> "notbytes", exc |-> "ValidationError", needs |-> "any"],
    [entry |-> "set", arg |-> "key", kind |-> "notbytes", exc |-> "ValidationError", needs |-> "any"],
    [entry |-> "set", arg |-> "value", kind |-> "notbytes", exc |-> "ValidationError", needs |-> "any"],
    [entry |-> "setitem", arg |-> "key", kind |-> "notbytes", exc |-> "ValidationError", needs |-> "any"],
    [entry |-> "setitem", arg |-> "value", kind |-> "notbytes", exc |-> "ValidationError", needs |-> "any"],
    [entry |-> "constructor", arg |-> "root", kind |-> "notbytes", exc |-> "ValidationError", needs |-> "any"] }
Rejected(e) == /\ Log([a |-> "reject", entry |-> e.entry, arg |-> e.arg, kind |-> e.kind, exc |-> e.exc, ok |-> FALSE])
               /\ UNCHANGED <<root, db, contents, past>>
NextR == \E e \in BinRejects : Rejected(e)
Next == \/ \E k \in Keys : (\E v \in Vals : Set(k, v)) \/ Del(k)
        \/ \E p \in LookupKeys : Del(p) /\ p \notin Keys
        \/ \E p \in LookupKeys : DelSub(p)
\* the j-th database write of a call raises (a failing disk / network store): the call raises,
\* and nothing the trie knows changes.  Which of the earlier writes reached the database is left
\* open (they are content addressed and harmless); the model keeps db as it was.
FailWrite(a, k, v, j) ==
  /\ LET r == BSet(root, k, v, a = "delsub") IN r.ok /\ j <= Cardinality(r.w)
  /\ Log([a |-> "failwrite", op |-> a, k |-> k, v |-> JV(v), j |-> j, ok |-> FALSE])
  /\ UNCHANGED <<root, db, contents, past>>
NextF == \E k \in Keys : \E j \in 1..4 :
           \/ \E v \in Vals : Cardinality(Live(contents) \cup {k}) <= MaxLive /\ FailWrite("set", k, v, j)
           \/ FailWrite("del", k, NoVal, j) \/ FailWrite("delsub", k, NoVal, j)
NextFSet == \E k \in Keys : \E j \in 1..3 : \E v \in Vals :
              Cardinality(Live(contents) \cup {k}) <= MaxLive /\ FailWrite("set", k, v, j)
\* the trie is pointed back at a root it had before (trie.root_hash = h, or trie.root_node = body):
\* a binary trie never deletes, so every earlier root stays usable; writes afterwards fork the history
Checkout(p) == /\ p \in past /\ <<p.r, p.c>> # <<root, contents>>
               /\ root' = p.r /\ contents' = p.c /\ UNCHANGED <<db, past>>
               /\ Log([a |-> "checkout", k |-> <<>>, v |-> JV(NoVal), ok |-> TRUE, root |-> JB(p.r)])
NextC == \E p \in past : Checkout(p)
Spec == Init /\ [][Next]_vars
SpecC == Init /\ [][Next \/ NextC]_vars
SpecR == Init /\ [][Next \/ NextR]_vars
SpecF == Init /\ [][Next \/ NextF]_vars

\* ------------------------------------------------------------------------
\* PROPERTIES
\* ------------------------------------------------------------------------
\* C12
Canonical == root = BCanon(AsMap(contents))
MapOK == \A k \in LookupKeys : /\ BGetH(root, k, AllH) = GV(ModelVal(contents, k))
                               /\ BLookup(root, k) = ModelVal(contents, k)
                               /\ BGetH(root, k, OnlyH(db)) = GV(ModelVal(contents, k))
PrefixFree == \A a \in Live(contents) : \A b \in Live(contents) : a # b => ~StartsWith(a, b)
EmptyIsBlank == Live(contents) = {} => root = BBlank
\* set is refused exactly on a prefix conflict; a refused call changes nothing; a delete
\* (or delete_subtrie) that is refused would not have changed anything
RefusalRule ==
  [][/\ (last'.a = "set" => (last'.ok <=> ~Conflict(contents, last'.k)))
     /\ (~last'.ok => UNCHANGED <<root, db, contents, past>>)
     /\ ((last'.a = "del" /\ ~last'.ok) => ModelVal(contents, last'.k) = NoVal)
     /\ ((last'.a = "delsub" /\ ~last'.ok) => \A k \in Live(contents) : ~StartsWith(k, last'.k))]_vars
AppendOnly == [][db \subseteq db']_vars
Readable == AllSub(root) \subseteq db
PastRootsReadable == \A p \in past : /\ AllSub(p.r) \subseteq db
                                     /\ \A k \in LookupKeys : BGetH(p.r, k, OnlyH(db)) = GV(ModelVal(p.c, k))
\* C13
\* get_branch refuses only a key that is not stored and conflicts with a stored key
BranchOrRefusal ==
  \A k \in LookupKeys : ~BranchOf(root, k).ok => (ModelVal(contents, k) = NoVal /\ Conflict(contents, k))
\* the branch is on the path, and suffices to confirm the trie's answer
BranchConfirms ==
  \A k \in LookupKeys : LET b == BranchOf(root, k) IN
     b.ok => /\ SeqSet(b.b) \subseteq AllSub(root)
             /\ BGetH(root, k, OnlyH(SeqSet(b.b))) = GV(ModelVal(contents, k))
\* whatever subset of the branch (with whatever other nodes of the database) is offered,
\* reading the key from the root gives the trie's answer or fails on a missing node
BranchUnforgeable ==
  \A k \in LookupKeys : LET b == BranchOf(root, k) IN
     b.ok => \A P \in SUBSET SeqSet(b.b) :
                LET g == BGetH(root, k, OnlyH(P \cup (db \ SeqSet(b.b)))) IN
                /\ g \in {GV(ModelVal(contents, k)), GMissing}
                /\ (P # SeqSet(b.b) /\ root.t # "blank" => g = GMissing)
ExistsIffPrefix ==
  \A p \in LookupKeys \cup {<<>>} : CheckExist(root, p) <=> \E k \in Live(contents) : StartsWith(k, p)
TrieNodesExact == SeqSet(TrieNodes(root)) = AllSub(root)
WitnessSound == \A p \in LookupKeys \cup {<<>>} : LET w == WitnessOf(root, p) IN
                  w.ok => SeqSet(w.b) \subseteq AllSub(root)
WitnessSufficient ==
  \A p \in LookupKeys \cup {<<>>} : LET w == WitnessOf(root, p) IN
     w.ok => \A k \in LookupKeys : StartsWith(k, p) =>
               BGetH(root, k, OnlyH(SeqSet(w.b))) = GV(ModelVal(contents, k))
\* the witness is refused only for a prefix running past a leaf
WitnessRefusal == \A p \in LookupKeys : ~WitnessOf(root, p).ok =>
                     \E k \in Live(contents) : StartsWith(p, k) /\ p # k
=============================================================================
