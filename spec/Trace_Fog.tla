------------------------------ MODULE Trace_Fog ------------------------------
(* Code -> specification for HexaryTrieFog: recorded histories of real fog objects over all 16  *)
(* nibbles with arbitrary sub-segment lists, every call matched with the action of Fog.tla and  *)
(* the logged contents / query answers judged by the definitions of that module.               *)
EXTENDS Fog, TraceConsts_Fog, Json, IOUtils, TLCExt
Traces == JsonDeserialize(IOEnv.TRACE_FILE)
VARIABLES tid, l, bad
tvars == <<vars, tid, l, bad>>
Tr == Traces[tid]
Fail(c) == PrintT(ToJson([fail |-> <<tid, l, c>>]))
TraceInit == Init /\ tid = 1 /\ l = 1 /\ bad = FALSE
SetOf(s) == {s[i] : i \in 1..Len(s)}
\* what the call must do, by the definitions: accepted iff valid, and then the replacement
Valid(ev) == IF ev.a = "explore" THEN /\ ev.p \in fog /\ Cardinality(SetOf(ev.segs)) = Len(ev.segs)
                                      /\ PrefixFree(SetOf(ev.segs))
             ELSE (\A i \in 1..Len(ev.ps) : ev.ps[i] \in fog) /\ Cardinality(SetOf(ev.ps)) = Len(ev.ps)
After(ev) == IF ~Valid(ev) THEN fog
             ELSE IF ev.a = "explore" THEN Replace(fog, ev.p, SetOf(ev.segs)) ELSE fog \ SetOf(ev.ps)
Step(ev) == /\ fog' = After(ev)
            /\ Log([a |-> ev.a, ok |-> Valid(ev)])
Clauses(ev) ==
  LET obs == SetOf(ev.st.fog) IN
  {
   <<"C11.refusal", ev.ok = Valid(ev)>>,
   <<"C11.transcribed-validation", ev.a = "explore" => (ExploreValid(fog, ev.p, ev.segs) = Valid(ev))>>,
   <<"C11.contents", obs = fog'>>,
   <<"C11.antichain", Antichain(obs)>>,
   <<"C11.receiver", ev.st.receiver_unchanged>>,
   <<"C11.complete", ev.st.is_complete = (fog' = {})>>,
   <<"C11.roundtrip", ev.st.roundtrip>>,
   <<"C11.nearest_unknown", \A i \in 1..Len(ev.st.nu) :
        [exc |-> ev.st.nu[i].exc, p |-> ev.st.nu[i].p] \in AcceptNU(fog', ev.st.nu[i].q)>>,
   <<"C11.nearest_right", \A i \in 1..Len(ev.st.nr) :
        [exc |-> ev.st.nr[i].exc, p |-> ev.st.nr[i].p] \in AcceptNR(fog', ev.st.nr[i].q)>>,
   <<"mirror.nearest_unknown", \A i \in 1..Len(ev.st.nu) :
        [exc |-> ev.st.nu[i].exc, p |-> ev.st.nu[i].p] = NearestUnknown(fog', ev.st.nu[i].q)>>
  }
StepEv ==
  /\ tid <= Len(Traces) /\ ~bad /\ l <= Len(Tr.ev)
  /\ LET ev == Tr.ev[l] IN
     /\ Step(ev)
     /\ LET failing == {c \in Clauses(ev) : ~c[2]} IN
        /\ \A c \in failing : Fail(c[1])
        /\ bad' = (failing # {})
  /\ l' = l + 1 /\ tid' = tid
Finish ==
  /\ tid <= Len(Traces) /\ (bad \/ l > Len(Tr.ev))
  /\ PrintT(ToJson([done |-> tid, steps |-> l - 1]))
  /\ tid' = tid + 1 /\ l' = 1 /\ bad' = FALSE
  /\ fog' = {<<>>} /\ last' = [a |-> "init"] /\ hist' = <<>>
TraceNext == StepEv \/ Finish
TraceSpec == TraceInit /\ [][TraceNext]_tvars
=============================================================================
