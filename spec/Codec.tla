------------------------------- MODULE Codec -------------------------------
(***************************************************************************)
(* The path and node encodings of py-trie as mathematical DEFINITIONS,      *)
(* written from their specifications (Yellow Paper appendix C for the       *)
(* hex-prefix function; the binary-trie node format), not from the code.    *)
(* There is no interesting state: every "initial state" of this module is    *)
(* one input x of the bounded domain; TLC enumerates the domain, checks the  *)
(* round-trip laws as invariants and prints the table (input, specified      *)
(* output) that the conformance harness runs through the real functions.     *)
(***************************************************************************)
EXTENDS Naturals, Sequences, FiniteSets, TLC
CONSTANTS Domain
VARIABLE x
vars == <<x>>

Take(s, n) == SubSeq(s, 1, n)
Drop(s, n) == SubSeq(s, n + 1, Len(s))
\* pairs of nibbles -> bytes
RECURSIVE Pack(_)
Pack(nib) == IF nib = <<>> THEN <<>> ELSE <<16 * nib[1] + nib[2]>> \o Pack(Drop(nib, 2))
RECURSIVE Unpack(_)
Unpack(bytes) == IF bytes = <<>> THEN <<>> ELSE <<Head(bytes) \div 16, Head(bytes) % 16>> \o Unpack(Tail(bytes))

\* Hex-prefix encoding, Yellow Paper (C): flag 2 if terminated; low bit of the flag nibble = odd length
HP(nib, term) == LET f == IF term THEN 2 ELSE 0 IN
                 IF Len(nib) % 2 = 0 THEN Pack(<<f, 0>> \o nib) ELSE Pack(<<f + 1>> \o nib)
UnHP(bytes) == LET n == Unpack(bytes)
                   f == n[1] IN
               [nib |-> IF f % 2 = 1 THEN Tail(n) ELSE Drop(n, 2), term |-> f \in {2, 3}]

\* bytes <-> bit strings, most significant bit first
RECURSIVE ByteBits(_, _)
ByteBits(b, n) == IF n = 0 THEN <<>> ELSE ByteBits(b \div 2, n - 1) \o <<b % 2>>
RECURSIVE ToBits(_)
ToBits(bytes) == IF bytes = <<>> THEN <<>> ELSE ByteBits(Head(bytes), 8) \o ToBits(Tail(bytes))
RECURSIVE BitsVal(_, _)
BitsVal(bits, acc) == IF bits = <<>> THEN acc ELSE BitsVal(Tail(bits), 2 * acc + Head(bits))
RECURSIVE FromBits(_)
FromBits(bits) == IF bits = <<>> THEN <<>>
                  ELSE <<BitsVal(Take(bits, IF Len(bits) < 8 THEN Len(bits) ELSE 8), 0)>>
                       \o FromBits(Drop(bits, IF Len(bits) < 8 THEN Len(bits) ELSE 8))

\* key path of a binary kv node: the bits padded on the left to whole nibbles, preceded by a
\* nibble 00LL (LL = length mod 4); if that is an odd number of nibbles a nibble 1000 goes in front
Zeros(n) == [i \in 1..n |-> 0]
PackKeypath(bits) ==
  LET pad == (4 - (Len(bits) % 4)) % 4
      body == Zeros(pad) \o bits
      mark == <<0, 0, (Len(bits) % 4) \div 2, (Len(bits) % 4) % 2>>
      all == IF Len(body) % 8 = 4 THEN mark \o body ELSE <<1, 0, 0, 0>> \o mark \o body
  IN FromBits(all)
UnpackKeypath(bytes) ==
  LET b0 == ToBits(bytes)
      b1 == IF b0[1] = 1 THEN Drop(b0, 4) ELSE b0
      ll == 2 * b1[3] + b1[4]
  IN Drop(b1, 4 + ((4 - ll) % 4))

\* binary node shapes: what parse_node answers for a node of a given type byte and total length
ParseShape(typ, len) ==
  IF len = 0 THEN "InvalidNode"
  ELSE IF typ = 1 THEN (IF len = 65 THEN "branch" ELSE "InvalidNode")
  ELSE IF typ = 0 THEN (IF len <= 33 THEN "InvalidNode" ELSE "kv")
  ELSE IF typ = 2 THEN (IF len = 1 THEN "InvalidNode" ELSE "leaf")
  ELSE "InvalidNode"

Init == x \in Domain
Next == UNCHANGED x
Spec == Init /\ [][Next]_vars

---------------------------------------------------------------------------
\* laws (C16), checked for every member of the domain
HPRoundTrip == x.kind = "nib" =>
                 /\ UnHP(HP(x.nib, TRUE)) = [nib |-> x.nib, term |-> TRUE]
                 /\ UnHP(HP(x.nib, FALSE)) = [nib |-> x.nib, term |-> FALSE]
                 /\ Len(HP(x.nib, TRUE)) = Len(x.nib) \div 2 + 1
HPInjective == x.kind = "nib" => HP(x.nib, TRUE) # HP(x.nib, FALSE)
NibbleBytes == /\ (x.kind = "bytes" => Pack(Unpack(x.bytes)) = x.bytes)
               /\ (x.kind = "nib" /\ Len(x.nib) % 2 = 0 => Unpack(Pack(x.nib)) = x.nib)
BitBytes == /\ (x.kind = "bytes" => FromBits(ToBits(x.bytes)) = x.bytes /\ Len(ToBits(x.bytes)) = 8 * Len(x.bytes))
            /\ (x.kind = "bits" /\ Len(x.bits) % 8 = 0 => ToBits(FromBits(x.bits)) = x.bits)
KeypathRoundTrip == x.kind = "bits" =>
                      /\ UnpackKeypath(PackKeypath(x.bits)) = x.bits
                      /\ Len(PackKeypath(x.bits)) = (((Len(x.bits) + 3) \div 4) \div 2) + 1
=============================================================================
