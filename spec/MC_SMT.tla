------------------------------- MODULE MC_SMT -------------------------------
EXTENDS SMT, Json, TLCExt
\* depth 8: keys splitting at bits 1, 2, 4, 7, 8
K8 == { <<0,0,0,0,0,0,0,0>>, <<0,0,0,0,0,0,0,1>>, <<0,0,0,0,0,0,1,0>>, <<0,0,0,1,0,0,0,0>>,
        <<0,1,0,0,0,0,0,0>>, <<1,0,0,0,0,0,0,0>>, <<1,1,1,1,1,1,1,1>> }
K8s == { <<0,0,0,0,0,0,0,0>>, <<0,0,0,0,0,0,0,1>>, <<0,0,0,1,0,0,0,0>>, <<1,0,0,0,0,0,0,0>>, <<1,1,1,1,1,1,1,1>> }
K8t == { <<0,0,0,0,0,0,0,0>>, <<0,0,0,1,0,0,0,0>>, <<1,1,1,1,1,1,1,1>> }
\* depth 16: splitting at bits 1, 8, 9, 15, 16
K16 == { <<0,0,0,0,0,0,0,0,0,0,0,0,0,0,0,0>>, <<0,0,0,0,0,0,0,0,0,0,0,0,0,0,0,1>>, <<0,0,0,0,0,0,0,0,0,0,0,0,0,0,1,0>>,
         <<0,0,0,0,0,0,0,0,1,0,0,0,0,0,0,0>>, <<0,0,0,0,0,0,0,1,0,0,0,0,0,0,0,0>>,
         <<1,0,0,0,0,0,0,0,0,0,0,0,0,0,0,0>>, <<0,1,1,1,1,1,1,1,1,1,1,1,1,1,1,1>> }
\* depth 64 and 256: pairs of keys whose XOR is a long run of ones (neighbours across a power
\* of two, complements from some bit downward), and single-bit differences at both ends
Rep(b, n) == [i \in 1..n |-> b]
K64 == { Rep(0, 64), <<0>> \o Rep(1, 63), <<1>> \o Rep(0, 63), Rep(1, 64), Rep(0, 32) \o Rep(1, 32),
         Rep(0, 63) \o <<1>>, Rep(0, 8) \o Rep(1, 56) }
K256 == { Rep(0, 256), <<0>> \o Rep(1, 255), <<1>> \o Rep(0, 255), Rep(1, 256), Rep(0, 255) \o <<1>>,
          Rep(0, 128) \o Rep(1, 128) }
T64few == {0, 1, 2, 8, 9, 33, 63, 64}
TFull64 == {64}
T256few == {0, 1, 2, 129, 255, 256}
TFull256 == {256}
VX == { [tag |-> 120, len |-> 1], [tag |-> 121, len |-> 2] }
DBlank == { [tag |-> 0, len |-> 0] }
DBoth == { [tag |-> 0, len |-> 0], [tag |-> 100, len |-> 3] }
T8 == 0..8
T8few == {0, 1, 4, 7, 8}
T16few == {0, 1, 8, 9, 15, 16}
TFull8 == {8}
TFull16 == {16}
ViewHist == <<default, tree, contents, tracking, tracked, pvalue, pbranch, ops, hist>>
View == <<default, tree, contents, tracking, tracked, pvalue, pbranch, ops>>
\* The observables are an operator of VALUES, applied to the (primed or unprimed) variables:
\* TLC does not cache lazily evaluated operator arguments while it evaluates a primed
\* expression, which makes recursive operators exponential there; inside ObsOf nothing is primed.
LeafValIn(t, k) == LeafVal(LeafOf(t, k))
ObsOf(t, d, trk, tk, pv, pb) ==
  [root |-> JT(t), dflt |-> JV(d),
   look |-> {LET v == LeafValIn(t, k) IN
             [k |-> k, g |-> IF v = Blank THEN "KeyError" ELSE "val", v |-> JV(v), br |-> JSeq(Sibs(t, k))] : k \in Keys},
   tracking |-> trk, tracked |-> tk, pvalue |-> JV(pv), pbranch |-> JSeq(pb)]
Emit == PrintT(ToJson([h |-> hist', st |-> ObsOf(tree', default', tracking', tracked', pvalue', pbranch')]))
EmitSt == PrintT(ToJson([h |-> hist, st |-> ObsOf(tree, default, tracking, tracked, pvalue, pbranch)]))
=============================================================================
