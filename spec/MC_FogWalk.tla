----------------------------- MODULE MC_FogWalk -----------------------------
EXTENDS FogWalk, Json, TLCExt
KWalk == { <<>>, <<0,0>>, <<0,1>>, <<1,0>>, <<0,0,0,0>>, <<0,0,0,1>> }
KWalk2 == { <<0,0>>, <<0,1>>, <<0,0,0,0>>, <<0,0,0,1>>, <<0,1,1,1>>, <<0,1,1,2>>, <<0,2,0,0>> }
KWalkB == { <<0,0>>, <<0,1>> }
VWalk == { [tag |-> 97, len |-> 1], [tag |-> 200, len |-> 33] }
VLongOnly == { [tag |-> 200, len |-> 33], [tag |-> 201, len |-> 34] }
Both == {TRUE, FALSE}
NoWalkFeatures == {}
AllWalkFeatures == {"batch", "rewrite"}
OnlyT == {TRUE}
OnlyF == {FALSE}
View == <<prune, usecache, contents, fog, cache, met, changed, ever, muts>>
Obs == [fog |-> fog, met |-> {<<m[1], JV(m[2])>> : m \in met}, cached |-> DOMAIN cache,
        pairs |-> {<<k, JV(contents[k])>> : k \in Live(contents)},
        unchanged |-> {<<k, JV(contents[k])>> : k \in Live(contents) \ changed},
        ever |-> {<<m[1], JV(m[2])>> : m \in ever}, muts |-> muts]
Emit == PrintT(ToJson([h |-> hist', st |-> Obs']))
=============================================================================
