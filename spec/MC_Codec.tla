------------------------------ MODULE MC_Codec ------------------------------
EXTENDS Codec, Json, TLCExt
SeqsUpTo(S, n) == UNION {[1..m -> S] : m \in 0..n}
Nib == 0..15
NibDom(n) == {[kind |-> "nib", nib |-> s] : s \in SeqsUpTo(Nib, n)}
BitDom(n) == {[kind |-> "bits", bits |-> s] : s \in SeqsUpTo({0, 1}, n)}
ByteDom1 == {[kind |-> "bytes", bytes |-> s] : s \in SeqsUpTo(0..255, 1)}
ByteDom2 == {[kind |-> "bytes", bytes |-> <<a, b>>] : a \in {0, 1, 15, 16, 127, 128, 255}, b \in 0..255}
ShapeDom == {[kind |-> "shape", typ |-> t, len |-> n] : t \in {0, 1, 2, 3, 4, 128, 255}, n \in 0..70}
DQuick == NibDom(3) \cup BitDom(9) \cup ByteDom1 \cup ShapeDom
\* (the thorough domain lives in MC_CodecFull: TLC evaluates every constant definition of the
\* module it is given when it starts, whether the configuration uses it or not -- two minutes here)
Row == CASE x.kind = "nib" -> [kind |-> "nib", nib |-> x.nib, hpT |-> HP(x.nib, TRUE), hpF |-> HP(x.nib, FALSE),
                                bytes |-> IF Len(x.nib) % 2 = 0 THEN Pack(x.nib) ELSE <<>>]
         [] x.kind = "bits" -> [kind |-> "bits", bits |-> x.bits, keypath |-> PackKeypath(x.bits),
                                bytes |-> IF Len(x.bits) % 8 = 0 THEN FromBits(x.bits) ELSE <<>>]
         [] x.kind = "bytes" -> [kind |-> "bytes", bytes |-> x.bytes, nib |-> Unpack(x.bytes), bits |-> ToBits(x.bytes)]
         [] x.kind = "shape" -> [kind |-> "shape", typ |-> x.typ, len |-> x.len, parse |-> ParseShape(x.typ, x.len)]
EmitRow == PrintT(ToJson(Row))
=============================================================================
