SPECIFICATION Spec
CONSTANTS
  Keys <- KQuick
  LookupKeys <- LQuick
  Vals <- VQuick
  MaxLive = 3
  MaxBatchOps = 2
  MaxLost = 0
  PruneModes <- Both
  Features <- FBatch
  Bugs <- NoBugs
INVARIANT MapRefinement
INVARIANT LookupAgrees
INVARIANT Canonical
INVARIANT EmptyIsBlankRoot
INVARIANT PairsAreContents
INVARIANT Readable
INVARIANT PruneExact
INVARIANT RcTrue
INVARIANT RegenAgrees
INVARIANT BatchRcTrue
INVARIANT NoWriteBeforeRead
PROPERTY AppendOnly
PROPERTY CommitExact
PROPERTY AbortRestores
PROPERTY OpenBatchIsolated
CONSTRAINT Lvl6
VIEW ViewLight
CHECK_DEADLOCK FALSE
