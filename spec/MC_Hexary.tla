----------------------------- MODULE MC_Hexary -----------------------------
(* Bounded instances of HexaryTrie.tla (constants as definitions: cfg files   *)
(* cannot hold tuples).  One module, several .cfg files.                      *)
EXTENDS HexaryTrie, Json, TLCExt

\* H-quick
KQuick == { <<>>, <<0,0>>, <<0,1>>, <<1,0>>, <<0,0,0,0>>, <<0,0,0,1>>, <<0,1,0,0>> }
LQuick == KQuick \cup { <<0,0,0,0,0,0>>, <<0,0,1,0>>, <<1,1>>, <<0,1,0,1>>, <<15,15>> }
VQuick == { [tag |-> 97, len |-> 1], [tag |-> 200, len |-> 33] }

\* H-full
KFull == KQuick \cup { <<0,0,1,0>>, <<1,0,0,0>>, <<0,0,0,0,0,0>>, <<0,0,0,1,0,0>>, <<0,0,0,1,0,1>>, <<1,1>> }
LFull == KFull \cup LQuick \cup { <<0,0,0,0,0,1>>, <<0,0,0,1,0,0,0,0>>, <<1,0,0,0,0,0>>, <<0,0,0,1,1,1>> }
VFull == { [tag |-> 97, len |-> 1], [tag |-> 129, len |-> 1], [tag |-> 98, len |-> 20], [tag |-> 200, len |-> 33] }

\* H-threshold: value lengths that put leaf / branch encodings at 31, 32, 33 bytes
KThresh == { <<>>, <<0,0>>, <<0,1>>, <<0,0,0,0>>, <<0,0,0,1>> }
LThresh == KThresh \cup { <<0,0,0,0,0,0>>, <<1,0>>, <<0,0,1,0>> }
\* (a leaf is 3+L bytes for a path of 0-1 nibbles, 5+L for 2-3 nibbles)
VThreshA == { [tag |-> 120, len |-> 26], [tag |-> 121, len |-> 27], [tag |-> 122, len |-> 28] }
VThreshB == { [tag |-> 123, len |-> 29], [tag |-> 124, len |-> 30], [tag |-> 125, len |-> 31] }
VThreshC == { [tag |-> 120, len |-> 27], [tag |-> 121, len |-> 28], [tag |-> 122, len |-> 29], [tag |-> 7, len |-> 1] }
\* H-long: RLP long-string (>= 56) and long-list forms
KLong == { <<>>, <<0,0>>, <<0,1>>, <<0,0,0,1>> }
LLong == KLong \cup { <<0,0,0,0>>, <<1,0>> }
VLong == { [tag |-> 1, len |-> 55], [tag |-> 2, len |-> 56], [tag |-> 3, len |-> 57], [tag |-> 4, len |-> 300] }
\* H-share: identical subtrees under different parents (reference counts 2 and 3)
KShare == { <<0,0,10,10>>, <<0,1,10,10>>, <<1,0,10,10>>, <<0,0,10,11>>, <<0,1,10,11>>, <<10,10>> }
LShare == KShare \cup { <<0,0>>, <<0,0,10,0>>, <<>> , <<0,1,10,10,0,0>>}
VShare == { [tag |-> 200, len |-> 33], [tag |-> 201, len |-> 40] }
\* twin leaves (identical bytes under different parents) with few keys
\* two prefixes leading to byte-identical hashed subtrees WITH an interior (extension, branch, two leaves):
\* shared interior nodes have reference count 2 (C07: a failed call below them must leave the counts alone)
KShare4 == { <<0,0,10,10>>, <<0,0,10,11>>, <<0,1,10,10>>, <<0,1,10,11>> }
LShare4 == KShare4 \cup { <<0,0>>, <<>>, <<0,0,10,10,0,0>> }
VOne33 == { [tag |-> 200, len |-> 33] }
KTwin == { <<0,0,10,10>>, <<0,1,10,10>>, <<10,10>> }
LTwin == KTwin \cup { <<0,0>>, <<>>, <<0,0,10,10,0,0>> }
\* three keys whose trie is an extension over a branch, embedded in the root (all values short)
KTiny == { <<0,0,0,0>>, <<0,0,0,1>>, <<1,0>> }
LTiny == KTiny \cup { <<0,0>>, <<>>, <<0,0,0,0,0,0>> }
VShort2 == { [tag |-> 97, len |-> 1], [tag |-> 98, len |-> 1] }
\* one key, two long values: every behaviour up to a depth (history-unfolded runs)
KOne == { <<0,0>> }
LOne == { <<0,0>>, <<>>, <<0,0,0,0>> }
\* H-faults: long values, so that several hashed nodes exist
KFaults == { <<0,0>>, <<0,1>>, <<0,0,0,0>>, <<0,0,0,1>>, <<1,0>>, <<>> }
LFaults == KFaults \cup { <<0,0,0,0,0,0>>, <<1,1>>, <<0,0,1,0>> }
KFaults3 == { <<0,0>>, <<0,1>>, <<0,0,0,0>> }
VFaults == { [tag |-> 200, len |-> 33], [tag |-> 201, len |-> 40] }

NoBugs == {}
BugsD1 == {"D1"}
BugsD2 == {"D2"}
BugsD3 == {"D3"}
Both == {TRUE, FALSE}
OnlyPrune == {TRUE}
OnlyNoPrune == {FALSE}
FDirect == {"direct"}
FBatch == {"direct", "batch"}
FBatchNoop == {"direct", "batch", "noop"}
FHist == {"direct", "batch", "second", "failwrite"}
FHistCk == {"direct", "batch", "second", "checkout", "failwrite"}
FHistCkNoop == {"direct", "batch", "second", "checkout", "failwrite", "noop"}
FCk == {"direct", "checkout"}
FBatchFail == {"direct", "batch", "failwrite"}
FFailPrune == {"direct", "failwrite", "failwritep", "noop"}
FFaults == {"direct", "batch", "lose", "get"}
FDirectNoop == {"direct", "noop"}
FReject == {"direct", "batch", "reject"}
FRejectNoop == {"direct", "batch", "reject", "noop"}
FHistNoop == {"direct", "batch", "second", "failwrite", "noop"}
FBatchFailNoop == {"direct", "batch", "failwrite", "noop"}
FFaultsNoop == {"direct", "batch", "lose", "get", "noop"}
FFaultsDirect == {"direct", "lose", "get"}

\* depth bound as a guard of the next-state relation (a state constraint would
\* generate and then throw away the successors of the deepest level)
Bounded(n) == Init /\ [][TLCGet("level") < n /\ Next]_vars
SpecL3 == Bounded(3)
SpecL4 == Bounded(4)
SpecL5 == Bounded(5)
SpecL6 == Bounded(6)
SpecL7 == Bounded(7)
SpecL8 == Bounded(8)
SpecL9 == Bounded(9)
SpecL10 == Bounded(10)
SpecL11 == Bounded(11)
SpecL12 == Bounded(12)
Level(n) == TLCGet("level") <= n
Lvl4 == Level(4)
Lvl5 == Level(5)
Lvl6 == Level(6)
Lvl7 == Level(7)
Lvl8 == Level(8)
\* fault-free runs: the database of a non-pruning trie, the ghost history and
\* the observations do not influence any later step
ViewLight == <<prune, IF prune THEN db ELSE {}, root, rc, contents, root2, contents2,
               bopen, cache, corder, broot, brc, bcontents, bops, lost>>
\* fault runs: the database matters (what is readable), the ghost history does not
ViewFaults == <<prune, db, root, rc, contents, root2, contents2,
                bopen, cache, corder, broot, brc, bcontents, bops, lost>>
\* ... and what the previous call was and how it ended (a batch aborted after one of its
\* operations hit a missing node is then replayed behind exactly that history)
ViewFaultsLast == <<ViewFaults, last>>
ViewHist == <<prune, db, root, rc, contents, bopen, cache, corder, broot, brc, bcontents, bops, hist>>
ViewFull == <<prune, db, root, rc, contents, root2, contents2,
              bopen, cache, corder, broot, brc, bcontents, bops, lost, past>>

\* ---- behaviour emission (spec -> code) ----
\* Observables are operators of a VALUE s (the state as a record), applied to Cur or Cur':
\* TLC does not cache lazily evaluated operator arguments while it evaluates a primed
\* expression, which makes recursive operators (J, Stored, Canon ...) exponential there;
\* inside ObsOf(s) nothing is primed, only the outermost argument is.
Cur == [prune |-> prune, root |-> root, contents |-> contents, db |-> db, rc |-> rc,
        bopen |-> bopen, broot |-> broot, bcontents |-> bcontents, brc |-> brc,
        root2 |-> root2, contents2 |-> contents2, lost |-> lost, past |-> past]
LookJ(c) == {<<k, JV(ModelVal(c, k))>> : k \in LookupKeys}
ObsOf(s) == [prune |-> s.prune, root |-> J(s.root), look |-> LookJ(s.contents),
             db |-> JSet(s.db), rc |-> JBag(s.rc),
             bopen |-> s.bopen, broot |-> J(s.broot), blook |-> LookJ(s.bcontents), brc |-> JBag(s.brc),
             stored |-> JSet(Stored(s.root)),
             root2 |-> J(s.root2), look2 |-> LookJ(s.contents2), nlost |-> Cardinality(s.lost)]
ObsC01Of(s) == [prune |-> s.prune, root |-> J(s.root), look |-> LookJ(s.contents), db |-> {}, rc |-> {},
                bopen |-> s.bopen, broot |-> J(s.broot), blook |-> LookJ(s.bcontents), brc |-> {},
                root2 |-> J(s.root2), look2 |-> LookJ(s.contents2), nlost |-> Cardinality(s.lost),
                light |-> TRUE]
\* ---- tables describing one state ----
TravTableOf(s) == {LET o == TravRoot(s.root, p, Only(s.db)) IN
                   [p |-> p, d |-> Describe(o), n |-> IF o.kind = "missing" THEN J(o.n) ELSE <<>>,
                    hops |-> o.hops, reads |-> o.reads] : p \in TravPaths(s.contents)}
ObsC08Of(s) == [trav |-> TravTableOf(s), db |-> JSet(s.db)] @@ ObsC01Of(s)
ProofTableOf(s) == {LET pf == Proof(s.root, k) IN
                    [k |-> k, proof |-> [i \in 1..Len(pf) |-> J(pf[i])],
                     path |-> JSet(PathNodes(s.root, k)), v |-> JV(ModelVal(s.contents, k))] : k \in LookupKeys}
NeedTableOf(s) == {[r |-> J(pr.r), k |-> k, need |-> JSet(NeededNodes(pr.r, k)), v |-> JV(ModelVal(pr.c, k))] :
                     pr \in s.past \cup {[r |-> s.root, c |-> s.contents]}, k \in LookupKeys}
ObsC03Of(s) == [proofs |-> ProofTableOf(s), needs |-> NeedTableOf(s), db |-> JSet(s.db)] @@ ObsC01Of(s)
RECURSIVE PreJ(_, _)
RECURSIVE PreKidsJ(_, _, _)
PreKidsJ(n, pre, i) == IF i > Len(SubSegs(n)) THEN <<>>
                       ELSE LET s == SubSegs(n)[i] IN PreJ(ChildVia(n, s), TLCEval(pre \o s)) \o PreKidsJ(n, pre, i + 1)
PreJ(n, pre) == << [p |-> pre, t |-> n.t, subs |-> SubSegs(n), v |-> JV(NodeValue(n)), suffix |-> Suffix(n)] >>
                \o PreKidsJ(n, pre, 1)
RECURSIVE SortedItemsJ(_, _)
SortedItemsJ(c, K) == IF K = {} THEN <<>>
                      ELSE LET m == MinKey(K).k IN << <<m, JV(c[m])>> >> \o SortedItemsJ(c, K \ {m})
IterTableOf(s) ==
  [items |-> SortedItemsJ(s.contents, Live(s.contents)),
   nodes |-> PreJ(s.root, <<>>),
   next |-> {[q |-> q, r |-> SuccOf(Live(s.contents), q)] : q \in IterQueries},
   first |-> MinKey(Live(s.contents))]
ObsC10Of(s) == [iter |-> IterTableOf(s)] @@ ObsC01Of(s)
ObsC07Of(s) == [trav |-> TravTableOf(s)] @@ ObsOf(s)
\* state-level emitters (INVARIANT: once per distinct state; in simulation once per generated successor)
EmitStAll == PrintT(ToJson([h |-> hist, st |-> ObsOf(Cur)]))
EmitStC01 == PrintT(ToJson([h |-> hist, st |-> ObsC01Of(Cur)]))
EmitStC03 == PrintT(ToJson([h |-> hist, st |-> ObsC03Of(Cur)]))
EmitStC07 == PrintT(ToJson([h |-> hist, st |-> ObsC07Of(Cur)]))
EmitStC08 == PrintT(ToJson([h |-> hist, st |-> ObsC08Of(Cur)]))
EmitStC10 == PrintT(ToJson([h |-> hist, st |-> ObsC10Of(Cur)]))
\* transition-level emitters (ACTION_CONSTRAINT: once per generated transition)
EmitAll == PrintT(ToJson([h |-> hist', st |-> ObsOf(Cur')]))
EmitC01 == PrintT(ToJson([h |-> hist', st |-> ObsC01Of(Cur')]))
EmitC03 == PrintT(ToJson([h |-> hist', st |-> ObsC03Of(Cur')]))
EmitC07 == PrintT(ToJson([h |-> hist', st |-> ObsC07Of(Cur')]))
EmitC08 == PrintT(ToJson([h |-> hist', st |-> ObsC08Of(Cur')]))
EmitC10 == PrintT(ToJson([h |-> hist', st |-> ObsC10Of(Cur')]))
=============================================================================
