----------------------------- MODULE MC_Hexary -----------------------------
(* Bounded instances of HexaryTrie.tla (constants as definitions: cfg files   *)
(* cannot hold tuples).  One module, several .cfg files.                      *)
EXTENDS HexaryTrie, Json, TLCExt

\* H-quick
KQuick == { <<>>, <<0,0>>, <<0,1>>, <<1,0>>, <<0,0,0,0>>, <<0,0,0,1>>, <<0,1,0,0>> }
LQuick == KQuick \cup { <<0,0,0,0,0,0>>, <<0,0,1,0>>, <<1,1>>, <<0,1,0,1>>, <<15,15>> }
VQuick == { [tag |-> 97, len |-> 1], [tag |-> 200, len |-> 33] }

\* H-full
KFull == KQuick \cup { <<0,0,1,0>>, <<1,0,0,0>>, <<0,0,0,0,0,0>>, <<0,0,0,1,0,0>>, <<0,0,0,1,0,1>>, <<1,1>> }
LFull == KFull \cup LQuick \cup { <<0,0,0,0,0,1>>, <<0,0,0,1,0,0,0,0>>, <<1,0,0,0,0,0>>, <<0,0,0,1,1,1>> }
VFull == { [tag |-> 97, len |-> 1], [tag |-> 129, len |-> 1], [tag |-> 98, len |-> 20], [tag |-> 200, len |-> 33] }

\* H-threshold: value lengths that put leaf / branch encodings at 31, 32, 33 bytes
KThresh == { <<>>, <<0,0>>, <<0,1>>, <<0,0,0,0>>, <<0,0,0,1>> }
LThresh == KThresh \cup { <<0,0,0,0,0,0>>, <<1,0>>, <<0,0,1,0>> }
\* (a leaf is 3+L bytes for a path of 0-1 nibbles, 5+L for 2-3 nibbles)
VThreshA == { [tag |-> 120, len |-> 26], [tag |-> 121, len |-> 27], [tag |-> 122, len |-> 28] }
VThreshB == { [tag |-> 123, len |-> 29], [tag |-> 124, len |-> 30], [tag |-> 125, len |-> 31] }
VThreshC == { [tag |-> 120, len |-> 27], [tag |-> 121, len |-> 28], [tag |-> 122, len |-> 29], [tag |-> 7, len |-> 1] }
\* H-long: RLP long-string (>= 56) and long-list forms
KLong == { <<>>, <<0,0>>, <<0,1>>, <<0,0,0,1>> }
LLong == KLong \cup { <<0,0,0,0>>, <<1,0>> }
VLong == { [tag |-> 1, len |-> 55], [tag |-> 2, len |-> 56], [tag |-> 3, len |-> 57], [tag |-> 4, len |-> 300] }
\* H-share: identical subtrees under different parents (reference counts 2 and 3)
KShare == { <<0,0,10,10>>, <<0,1,10,10>>, <<1,0,10,10>>, <<0,0,10,11>>, <<0,1,10,11>>, <<10,10>> }
LShare == KShare \cup { <<0,0>>, <<0,0,10,0>>, <<>> , <<0,1,10,10,0,0>>}
VShare == { [tag |-> 200, len |-> 33], [tag |-> 201, len |-> 40] }
\* H-faults: long values, so that several hashed nodes exist
KFaults == { <<0,0>>, <<0,1>>, <<0,0,0,0>>, <<0,0,0,1>>, <<1,0>>, <<>> }
LFaults == KFaults \cup { <<0,0,0,0,0,0>>, <<1,1>>, <<0,0,1,0>> }
KFaults3 == { <<0,0>>, <<0,1>>, <<0,0,0,0>> }
VFaults == { [tag |-> 200, len |-> 33], [tag |-> 201, len |-> 40] }

NoBugs == {}
BugsD1 == {"D1"}
BugsD2 == {"D2"}
BugsD3 == {"D3"}
Both == {TRUE, FALSE}
OnlyPrune == {TRUE}
OnlyNoPrune == {FALSE}
FDirect == {"direct"}
FBatch == {"direct", "batch"}
FBatchNoop == {"direct", "batch", "noop"}
FHist == {"direct", "batch", "second", "failwrite"}
FBatchFail == {"direct", "batch", "failwrite"}
FFaults == {"direct", "batch", "lose", "get"}
FDirectNoop == {"direct", "noop"}
FHistNoop == {"direct", "batch", "second", "failwrite", "noop"}
FBatchFailNoop == {"direct", "batch", "failwrite", "noop"}
FFaultsNoop == {"direct", "batch", "lose", "get", "noop"}
FFaultsDirect == {"direct", "lose", "get"}

\* depth bound as a guard of the next-state relation (a state constraint would
\* generate and then throw away the successors of the deepest level)
Bounded(n) == Init /\ [][TLCGet("level") < n /\ Next]_vars
SpecL3 == Bounded(3)
SpecL4 == Bounded(4)
SpecL5 == Bounded(5)
SpecL6 == Bounded(6)
SpecL7 == Bounded(7)
SpecL8 == Bounded(8)
SpecL9 == Bounded(9)
SpecL10 == Bounded(10)
Level(n) == TLCGet("level") <= n
Lvl4 == Level(4)
Lvl5 == Level(5)
Lvl6 == Level(6)
Lvl7 == Level(7)
Lvl8 == Level(8)
\* fault-free runs: the database of a non-pruning trie, the ghost history and
\* the observations do not influence any later step
ViewLight == <<prune, IF prune THEN db ELSE {}, root, rc, contents, root2, contents2,
               bopen, cache, corder, broot, brc, bcontents, bops, lost>>
\* fault runs: the database matters (what is readable), the ghost history does not
ViewFaults == <<prune, db, root, rc, contents, root2, contents2,
                bopen, cache, corder, broot, brc, bcontents, bops, lost>>
ViewFull == <<prune, db, root, rc, contents, root2, contents2,
              bopen, cache, corder, broot, brc, bcontents, bops, lost, past>>

\* ---- behaviour emission (spec -> code): one line per generated transition ----
LookJ(c) == {<<k, JV(ModelVal(c, k))>> : k \in LookupKeys}
Obs == [prune |-> prune, root |-> J(root), look |-> LookJ(contents),
        db |-> JSet(db), rc |-> JBag(rc),
        bopen |-> bopen, broot |-> J(broot), blook |-> LookJ(bcontents), brc |-> JBag(brc),
        stored |-> JSet(Stored(root)),
        root2 |-> J(root2), look2 |-> LookJ(contents2), nlost |-> Cardinality(lost)]
ObsC01 == [prune |-> prune, root |-> J(root), look |-> LookJ(contents), db |-> {}, rc |-> {},
           bopen |-> bopen, broot |-> J(broot), blook |-> LookJ(bcontents), brc |-> {},
           root2 |-> J(root2), look2 |-> LookJ(contents2), nlost |-> Cardinality(lost),
           light |-> TRUE]
\* ---- per-state tables (emitted once per distinct state, by an INVARIANT) ----
TravTable == {LET o == TravRoot(root, p, Only(db)) IN
              [p |-> p, d |-> Describe(o), n |-> IF o.kind = "missing" THEN J(o.n) ELSE <<>>,
               hops |-> o.hops, reads |-> o.reads] : p \in TravPaths(contents)}
ObsC08 == [trav |-> TravTable, db |-> JSet(db)] @@ ObsC01
ProofTable == {LET pf == Proof(root, k) IN
               [k |-> k, proof |-> [i \in 1..Len(pf) |-> J(pf[i])],
                path |-> JSet(PathNodes(root, k)), v |-> JV(ModelVal(contents, k))] : k \in LookupKeys}
NeedTable == {[r |-> J(pr.r), k |-> k, need |-> JSet(NeededNodes(pr.r, k)), v |-> JV(ModelVal(pr.c, k))] :
                pr \in past \cup {[r |-> root, c |-> contents]}, k \in LookupKeys}
ObsC03 == [proofs |-> ProofTable, needs |-> NeedTable, db |-> JSet(db)] @@ ObsC01
\* (written as single recursive passes: TLC re-evaluates LET-bound sequences at every use)
RECURSIVE PreJ(_, _)
RECURSIVE PreKidsJ(_, _, _)
PreKidsJ(n, pre, i) == IF i > Len(SubSegs(n)) THEN <<>>
                       ELSE LET s == SubSegs(n)[i] IN PreJ(ChildVia(n, s), TLCEval(pre \o s)) \o PreKidsJ(n, pre, i + 1)
PreJ(n, pre) == << [p |-> pre, t |-> n.t, subs |-> SubSegs(n), v |-> JV(NodeValue(n)), suffix |-> Suffix(n)] >>
                \o PreKidsJ(n, pre, 1)
RECURSIVE SortedItemsJ(_)
SortedItemsJ(K) == IF K = {} THEN <<>>
                   ELSE LET m == MinKey(K).k IN << <<m, JV(contents[m])>> >> \o SortedItemsJ(K \ {m})
IterTable ==
  [items |-> SortedItemsJ(Live(contents)),
   nodes |-> PreJ(root, <<>>),
   next |-> {[q |-> q, r |-> SuccOf(Live(contents), q)] : q \in IterQueries},
   first |-> MinKey(Live(contents))]
ObsC10 == [iter |-> IterTable] @@ ObsC01
EmitStC10 == PrintT(ToJson([h |-> hist, st |-> ObsC10]))
EmitC10 == PrintT(ToJson([h |-> hist', st |-> ObsC10']))
\* (state-level emission is evaluated unprimed: TLC caches lazily evaluated operator arguments
\* there, which it does not do while it is constructing a successor state)
EmitStAll == PrintT(ToJson([h |-> hist, st |-> Obs]))
EmitStC01 == PrintT(ToJson([h |-> hist, st |-> ObsC01]))
EmitStC08 == PrintT(ToJson([h |-> hist, st |-> ObsC08]))
EmitStC03 == PrintT(ToJson([h |-> hist, st |-> ObsC03]))
ObsC07 == [trav |-> TravTable] @@ Obs
EmitStC07 == PrintT(ToJson([h |-> hist, st |-> ObsC07]))
EmitC08 == PrintT(ToJson([h |-> hist', st |-> ObsC08']))
EmitC03 == PrintT(ToJson([h |-> hist', st |-> ObsC03']))
EmitC07 == PrintT(ToJson([h |-> hist', st |-> ObsC07']))
EmitC01 == PrintT(ToJson([h |-> hist', st |-> ObsC01']))
EmitAll == PrintT(ToJson([h |-> hist', st |-> Obs']))
=============================================================================
