---------------------------- MODULE Trace_Codec ----------------------------
(* Code -> specification for C16: calls of the real encode / decode functions on inputs far  *)
(* longer than the enumerated domain are recorded; every recorded call is one member of the  *)
(* domain; TLC recomputes each result with the definitions of Codec.tla.                     *)
EXTENDS Codec, Json, IOUtils, TLCExt
Rows == JsonDeserialize(IOEnv.TRACE_FILE)
TraceDomain == {[Rows[i] EXCEPT !.id = i] : i \in 1..Len(Rows)}
Agree ==
  CASE x.kind = "nib" -> /\ HP(x.nib, TRUE) = x.hpT /\ HP(x.nib, FALSE) = x.hpF
                         /\ x.dT = x.nib \o <<16>> /\ x.dF = x.nib
                         /\ UnHP(x.hpT) = [nib |-> x.nib, term |-> TRUE]
    [] x.kind = "bits" -> PackKeypath(x.bits) = x.keypath /\ x.back = x.bits /\ UnpackKeypath(x.keypath) = x.bits
    [] x.kind = "bytes" -> Unpack(x.bytes) = x.nib /\ ToBits(x.bytes) = x.bits /\ x.bitsback = x.bytes
Check == Agree \/ PrintT(ToJson([fail |-> x.id]))
Done == PrintT(ToJson([done |-> x.id]))
=============================================================================
