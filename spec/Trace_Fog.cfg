SPECIFICATION TraceSpec
CONSTANTS
  SegSets <- TNone
  BadSegSeqs <- TNone
  QueryKeys <- TNone
  Strangers <- TNone
CHECK_DEADLOCK FALSE
