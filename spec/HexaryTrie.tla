----------------------------- MODULE HexaryTrie -----------------------------
(***************************************************************************)
(* State machine of trie.HexaryTrie: one action per public call (or         *)
(* environment step).  The effect of a call is the transcription in MPT.tla *)
(* executed against the database; the properties are stated with the        *)
(* independent definitions (Canon, Lookup, Stored, TrueRc).                 *)
(*                                                                         *)
(*   handle 1 : the trie under test (pruning or not), owner of batches      *)
(*   handle 2 : a second, non-pruning trie on the same database (snapshots  *)
(*              of past roots, interleaved writers)         -- C04          *)
(*   batch    : the memory trie of squash_changes over a ScratchDB          *)
(*   env      : node bodies lost from / supplied to the database -- C07     *)
(*              database writes that raise                    -- C04, C05   *)
(*                                                                         *)
(* Bugs \subseteq {"D1","D2","D3"} re-enables three defects of the pinned   *)
(* tree as named deviations; Bugs = {} is the specification.                *)
(***************************************************************************)
EXTENDS MPT
CONSTANTS Keys,          \* keys that may be written (even-length nibble sequences)
          Vals,          \* non-empty values
          LookupKeys,    \* keys that are looked up (superset of Keys)
          MaxLive,       \* bound on live keys
          MaxBatchOps,   \* bound on operations inside one batch
          MaxLost,       \* bound on simultaneously lost node bodies
          PruneModes,    \* subset of BOOLEAN
          Features,      \* subset of {"direct","batch","second","checkout","lose","failwrite","get","noop",...}
          Bugs
VARIABLES prune, db, root, rc, contents,
          root2, contents2,
          bopen, cache, corder, broot, brc, bcontents, bops,
          lost, past, saved, res, last, hist

vars == <<prune, db, root, rc, contents, root2, contents2,
          bopen, cache, corder, broot, brc, bcontents, bops, lost, past, saved, res,
          last, hist>>

NoCache == [n \in {} |-> "W"]
Live(c) == {x \in Keys : c[x] # NoVal}
AsMap(c) == [k \in Live(c) |-> c[k]]
EmptyContents == [k \in Keys |-> NoVal]
CacheW == {n \in DOMAIN cache : cache[n] = "W"}
CacheD == {n \in DOMAIN cache : cache[n] = "D"}

\* positions of effect-log entries
IdxOf(e, tag) == {j \in 1..Len(e) : e[j][1] = tag}
NodesOf(e, tag) == {e[i][2] : i \in IdxOf(e, tag)}
CountIn(e, tag, n) == Cardinality({i \in 1..Len(e) : e[i] = <<tag, n>>})
RECURSIVE SeqOf(_, _, _)
SeqOf(e, tag, i) == IF i > Len(e) THEN <<>>
                    ELSE (IF e[i][1] = tag THEN <<e[i][2]>> ELSE <<>>) \o SeqOf(e, tag, i + 1)
Max(a, b) == IF a > b THEN a ELSE b
RECURSIVE AppendNew(_, _)
AppendNew(s, items) == IF items = <<>> THEN s
                       ELSE AppendNew(IF \E i \in 1..Len(s) : s[i] = Head(items) THEN s
                                      ELSE Append(s, Head(items)), Tail(items))

\* An operation evaluated against a readable set: the node it would produce,
\* its effect log (root read first) and the index of the first unreadable read
Plan(r0, k, v, h) ==
  LET r == OpRes(r0, k, v)
      e == RootR(r0) \o r.e
      bad == {i \in IdxOf(e, "R") : ~Can(h, e[i][2])}
  IN [n |-> r.n, e |-> e, miss |-> IF bad = {} THEN 0 ELSE SetMin(bad)]

\* all database writes of a successful direct operation, in program order:
\* the _persist_node calls, then _set_raw_node(root) (skipped for a blank root)
WriteSeq(pl) == SeqOf(pl.e, "W", 1) \o (IF pl.n.t = "blank" THEN <<>> ELSE <<pl.n>>)

\* _set_db_value / _prune_node / _set_root_node / _complete_pruning of a pruning trie
\* over a store: returns new counts, nodes written, nodes deleted (in order)
ExecPrune(hasOld, cnt, e, newRoot, oldRoot) ==
  LET rootW == newRoot.t # "blank"
      Wn == NodesOf(e, "W") \cup (IF rootW THEN {newRoot} ELSE {})
      wc(n) == CountIn(e, "W", n) + (IF rootW /\ n = newRoot THEN 1 ELSE 0)
      small == oldRoot.t # "blank" /\ hasOld /\ ~IsHashed(oldRoot)
      pseq == SeqOf(e, "P", 1) \o (IF small THEN <<oldRoot>> ELSE <<>>)
      Pn == {pseq[i] : i \in 1..Len(pseq)}
      pc(n) == CountIn(e, "P", n) + (IF small /\ n = oldRoot THEN 1 ELSE 0)
      c(n) == Cnt(cnt, n) + wc(n) - pc(n)
      dels == {n \in Pn : c(n) <= 0}
  IN [rc |-> NormBag([n \in DOMAIN cnt \cup Wn \cup Pn |->
                        IF n \in Pn THEN Max(c(n), 0) ELSE Cnt(cnt, n) + wc(n)]),
      add |-> Wn, del |-> dels,
      dseq |-> SelectSeq(pseq, LAMBDA n : n \in dels)]

\* res: outcome of the last call (raw values); JOut: its JSON form for the log
OutKind(s) == [kind |-> s, n |-> Blank, prefix |-> <<>>, v |-> NoVal]
OutOk == OutKind("ok")
OutMissing(n, pfx) == [kind |-> "missing", n |-> n, prefix |-> pfx, v |-> NoVal]
OutVal(v) == [kind |-> "val", n |-> Blank, prefix |-> <<>>, v |-> v]
OfG(g) == IF g.kind = "missing" THEN OutMissing(g.n, g.prefix)
          ELSE IF g.kind = "val" THEN OutVal(g.v) ELSE OutKind(g.kind)
JOut(o) == [kind |-> o.kind, n |-> J(o.n), prefix |-> o.prefix, v |-> JV(o.v)]
\* last: the call just made (ghost); hist: the whole behaviour, for emission
Log(rec) == hist' = Append(hist, rec) /\ last' = rec
\* hashed children of the branch nodes on the path of k: what branch
\* normalisation may have to read after a delete
PathKids(r0, k) == UNION {{x.c[i] : i \in {j \in 1..16 : IsHashed(x.c[j])}} :
                            x \in {y \in PathNodes(r0, k) : y.t = "branch"}}
\* every node body an operation on key k may legitimately ask for
NeedOf(r0, k, isDel) == NeededNodes(r0, k) \cup (IF isDel THEN PathKids(r0, k) ELSE {})
\* (wroot: for a call that fails on a missing node, the root it would have produced on the
\* complete database -- a call that succeeds nevertheless must produce exactly that)
Ev(a, i, k, v, out, r0) ==
  [a |-> a, i |-> i, k |-> k, v |-> JV(v), out |-> JOut(out),
   need |-> IF out.kind = "missing" THEN JSet(NeedOf(r0, k, v = NoVal)) ELSE {},
   wroot |-> IF out.kind = "missing" THEN J(OpRes(r0, k, v).n) ELSE <<>>]

Init == /\ prune \in PruneModes
        /\ db = {} /\ root = Blank /\ rc = EmptyBag /\ contents = EmptyContents
        /\ root2 = Blank /\ contents2 = EmptyContents
        /\ bopen = FALSE /\ cache = NoCache /\ corder = <<>> /\ broot = Blank
        /\ brc = EmptyBag /\ bcontents = EmptyContents /\ bops = 0
        /\ lost = {} /\ past = {[r |-> Blank, c |-> EmptyContents]}
        /\ saved = [db |-> {}, root |-> Blank, rc |-> EmptyBag, contents |-> EmptyContents]
        /\ res = OutKind("init") /\ last = [a |-> "init"] /\ hist = <<>>

WithinLive(c, k, v) == Cardinality(Live(c) \cup (IF v = NoVal THEN {} ELSE {k})) <= MaxLive
\* "noop" feature off: skip operations that cannot change the contents twice in a row
Interesting(c, k, v) == "noop" \in Features \/ c[k] # v \/ v = NoVal

---------------------------------------------------------------------------
\* direct operation on handle 1:  trie.set(k, v) / trie.delete(k) / trie[k] = b''
Direct(k, v) ==
  /\ "direct" \in Features /\ ~bopen
  /\ WithinLive(contents, k, v) /\ Interesting(contents, k, v)
  /\ LET pl == Plan(root, k, v, Only(db)) IN
     IF pl.miss # 0
     THEN /\ res' = OutMissing(pl.e[pl.miss][2], <<>>)
          /\ Log(Ev("set", 1, k, v, res', root))
          /\ UNCHANGED <<db, root, rc, contents, past>>
     ELSE /\ contents' = [contents EXCEPT ![k] = v]
          /\ root' = pl.n
          /\ IF prune
             THEN LET x == ExecPrune(root \in db, rc, pl.e, pl.n, root) IN
                  /\ rc' = x.rc
                  /\ db' = (db \cup x.add) \ x.del
             ELSE /\ rc' = rc
                  /\ db' = db \cup {WriteSeq(pl)[i] : i \in 1..Len(WriteSeq(pl))}
          /\ past' = past \cup {[r |-> root', c |-> contents']}
          /\ res' = OutOk
          /\ Log(Ev("set", 1, k, v, res', root))
  /\ UNCHANGED <<prune, root2, contents2, bopen, cache, corder, broot, brc, bcontents,
                 bops, lost>>

\* the j-th database write of a direct operation raises.  Non-pruning tries: C04.  Pruning tries
\* (feature "failwritep"; no listed property speaks about it, the action records what the code
\* does): _set_db_value counts a node right after writing it and nothing is rolled back, so the
\* writes before the failing one stay in the database WITH their counts raised; the prunes the
\* call had pending are dropped.  PruneExact / RcTrue do not survive this; Readable and
\* RcNeverLow do.
SeqBag(ws, n) == [x \in {ws[i] : i \in 1..n} |-> Cardinality({i \in 1..n : ws[i] = x})]
FailWrite(k, v, j) ==
  /\ "failwrite" \in Features /\ ~bopen /\ (prune => "failwritep" \in Features)
  /\ WithinLive(contents, k, v)
  /\ LET pl == Plan(root, k, v, Only(db))
         ws == WriteSeq(pl) IN
     /\ pl.miss = 0
     /\ j \in 1..Len(ws)
     /\ db' = db \cup {ws[i] : i \in 1..(j - 1)}
     /\ rc' = IF prune THEN NormBag(BagAdd(rc, SeqBag(ws, j - 1))) ELSE rc
     /\ res' = OutKind("ioerror")
     /\ Log([a |-> "failwrite", i |-> 1, k |-> k, v |-> JV(v), j |-> j, out |-> JOut(res')])
  /\ UNCHANGED <<prune, root, contents, root2, contents2, bopen, cache, corder, broot,
                 brc, bcontents, bops, lost, past>>

\* handle 2: a fresh non-pruning HexaryTrie(db, r) / at_root(r) on any root ever held
Adopt2(p) ==
  /\ "second" \in Features /\ ~prune /\ p \in past
  /\ ("noop" \in Features \/ <<p.r, p.c>> # <<root2, contents2>>)
  /\ root2' = p.r /\ contents2' = p.c
  /\ res' = OutOk
  /\ Log([a |-> "adopt", i |-> 2, root |-> J(p.r), out |-> JOut(res')])
  /\ UNCHANGED <<prune, db, root, rc, contents, bopen, cache, corder, broot, brc,
                 bcontents, bops, lost, past>>

\* handle 1 is pointed at a root it (or handle 2) had before:  trie.root_hash = old_root.
\* This is how a user of a non-pruning trie goes back in history (C04: every past root stays
\* readable); writes made afterwards fork the history, the abandoned branch stays in `past`.
\* Not offered on pruning tries (the constructor's docstring: pruning is only safe from an empty
\* database; the reference counts describe the current root only) nor while a batch is open.
Checkout(p) ==
  /\ "checkout" \in Features /\ ~prune /\ ~bopen /\ p \in past
  /\ ("noop" \in Features \/ <<p.r, p.c>> # <<root, contents>>)
  /\ root' = p.r /\ contents' = p.c
  /\ res' = OutOk
  /\ Log([a |-> "checkout", i |-> 1, root |-> J(p.r), out |-> JOut(res')])
  /\ UNCHANGED <<prune, db, rc, root2, contents2, bopen, cache, corder, broot, brc,
                 bcontents, bops, lost, past>>

Direct2(k, v) ==
  /\ "second" \in Features /\ ~prune
  /\ WithinLive(contents2, k, v) /\ Interesting(contents2, k, v)
  /\ LET pl == Plan(root2, k, v, Only(db)) IN
     IF pl.miss # 0
     THEN /\ res' = OutMissing(pl.e[pl.miss][2], <<>>)
          /\ UNCHANGED <<db, root2, contents2, past>>
     ELSE /\ contents2' = [contents2 EXCEPT ![k] = v]
          /\ root2' = pl.n
          /\ db' = db \cup {WriteSeq(pl)[i] : i \in 1..Len(WriteSeq(pl))}
          /\ past' = past \cup {[r |-> root2', c |-> contents2']}
          /\ res' = OutOk
  /\ Log(Ev("set", 2, k, v, res', root2))
  /\ UNCHANGED <<prune, root, rc, contents, bopen, cache, corder, broot, brc, bcontents,
                 bops, lost>>

---------------------------------------------------------------------------
\* squash_changes
Begin ==
  /\ "batch" \in Features /\ ~bopen
  /\ bopen' = TRUE /\ cache' = NoCache /\ corder' = <<>> /\ broot' = root
  /\ brc' = IF prune THEN rc ELSE EmptyBag
  /\ bcontents' = contents /\ bops' = 0
  /\ saved' = [db |-> db, root |-> root, rc |-> rc, contents |-> contents]
  /\ res' = OutOk /\ Log([a |-> "begin", out |-> JOut(res')])
  /\ UNCHANGED <<prune, db, root, rc, contents, root2, contents2, lost, past>>

\* ScratchDB read: a buffered write, else fall through to the wrapped database
ScratchHas == Only(CacheW \cup db)

BatchOp(k, v) ==
  /\ bopen /\ bops < MaxBatchOps
  /\ WithinLive(bcontents, k, v) /\ Interesting(bcontents, k, v)
  /\ LET pl == Plan(broot, k, v, ScratchHas) IN
     IF pl.miss # 0
     THEN /\ res' = OutMissing(pl.e[pl.miss][2], <<>>)
          /\ UNCHANGED <<cache, corder, broot, brc, bcontents, rc>>
     ELSE LET x == ExecPrune(Can(ScratchHas, broot), brc, pl.e, pl.n, broot) IN
          /\ bcontents' = [bcontents EXCEPT ![k] = v]
          /\ broot' = pl.n
          /\ brc' = x.rc
          \* D3: the batch mutates the outer trie's counts in place
          /\ rc' = IF prune /\ "D3" \in Bugs THEN x.rc ELSE rc
          /\ cache' = [n \in DOMAIN cache \cup x.add \cup x.del |->
                         IF n \in x.del THEN "D" ELSE IF n \in x.add THEN "W" ELSE cache[n]]
          /\ corder' = AppendNew(AppendNew(corder, WriteSeq(pl)), x.dseq)
          /\ res' = OutOk
  /\ bops' = bops + 1
  /\ Log(Ev("bset", 1, k, v, res', broot))
  /\ UNCHANGED <<prune, db, root, contents, root2, contents2, bopen, lost, past>>

\* buffered writes in the order ScratchDB.batch_commit applies them
CommitSeq == SelectSeq(corder, LAMBDA n : cache[n] = "W")

Commit ==
  /\ bopen
  /\ LET db1 == IF prune THEN (db \cup CacheW) \ CacheD ELSE db \cup CacheW
         changed == broot # root
         reSet == changed /\ broot.t # "blank" /\ broot \in db1
     IN /\ db' = db1
        /\ root' = broot
        /\ rc' = IF ~prune THEN rc
                 ELSE IF reSet /\ "D2" \in Bugs THEN NormBag(BagAdd(brc, [x \in {broot} |-> 1]))
                 ELSE brc
        /\ contents' = bcontents
  /\ past' = past \cup {[r |-> root', c |-> contents']}
  /\ bopen' = FALSE /\ cache' = NoCache /\ corder' = <<>>
  /\ res' = OutOk /\ Log([a |-> "commit", out |-> JOut(res')])
  /\ UNCHANGED <<prune, root2, contents2, broot, brc, bcontents, bops, lost>>

\* the block is left by an exception (raised by the user, or a failed batch
\* operation that is allowed to propagate)
Abort ==
  /\ bopen
  /\ bopen' = FALSE /\ cache' = NoCache /\ corder' = <<>>
  /\ res' = OutOk /\ Log([a |-> "abort", out |-> JOut(res')])
  /\ UNCHANGED <<prune, db, root, rc, contents, root2, contents2, broot, brc, bcontents,
                 bops, lost, past>>

\* the j-th write of the commit of a non-pruning trie raises; j = Len+1 is the
\* outer trie's own re-write of the new root node after the ScratchDB commit
CommitFail(j) ==
  /\ "failwrite" \in Features /\ bopen /\ ~prune
  /\ LET cs == CommitSeq
         extra == IF broot # root /\ broot.t # "blank" /\ broot \in (db \cup CacheW)
                  THEN 1 ELSE 0 IN
     /\ j \in 1..(Len(cs) + extra)
     /\ db' = db \cup {cs[i] : i \in 1..Max(0, IF j <= Len(cs) THEN j - 1 ELSE Len(cs))}
  /\ bopen' = FALSE /\ cache' = NoCache /\ corder' = <<>>
  /\ res' = OutKind("ioerror") /\ Log([a |-> "commitfail", j |-> j, out |-> JOut(res')])
  /\ UNCHANGED <<prune, root, rc, contents, root2, contents2, broot, brc, bcontents, bops,
                 lost, past>>

---------------------------------------------------------------------------
\* environment: a node body disappears from / is put back into the database
EnvLose(n) ==
  /\ "lose" \in Features /\ n \in db /\ Cardinality(lost) < MaxLost
  /\ db' = db \ {n} /\ lost' = lost \cup {n}
  /\ res' = OutOk /\ Log([a |-> "lose", n |-> J(n), out |-> JOut(res')])
  /\ UNCHANGED <<prune, root, rc, contents, root2, contents2, bopen, cache, corder, broot,
                 brc, bcontents, bops, past>>
EnvSupply(n) ==
  /\ "lose" \in Features /\ n \in lost /\ n \notin db
  /\ db' = db \cup {n} /\ lost' = lost \ {n}
  /\ res' = OutOk /\ Log([a |-> "supply", n |-> J(n), out |-> JOut(res')])
  /\ UNCHANGED <<prune, root, rc, contents, root2, contents2, bopen, cache, corder, broot,
                 brc, bcontents, bops, past>>

\* lookups (get / exists / [] / in) as explicit calls, on the outer or the batch trie
Get(k) ==
  /\ "get" \in Features
  /\ LET g == IF bopen THEN GetOut(broot, k, ScratchHas, Bugs) ELSE GetOut(root, k, Only(db), Bugs)
     IN res' = OfG(g)
  /\ Log([a |-> IF bopen THEN "bget" ELSE "get", i |-> 1, k |-> k, out |-> JOut(res'),
          need |-> IF res'.kind = "missing"
                   THEN JSet(NeededNodes(IF bopen THEN broot ELSE root, k)) ELSE {}])
  /\ UNCHANGED <<prune, db, root, rc, contents, root2, contents2, bopen, cache, corder,
                 broot, brc, bcontents, bops, lost, past>>

\* C18: the table of ill-formed calls, the exception class each must be refused with, and when
\* it applies.  The conformance harness substitutes concrete ill-typed values for each kind.
HexRejects ==
  { [entry |-> "get", arg |-> "key", kind |-> "notbytes", exc |-> "ValidationError", needs |-> "any"],
    [entry |-> "exists", arg |-> "key", kind |-> "notbytes", exc |-> "ValidationError", needs |-> "any"],
    [entry |-> "getitem", arg |-> "key", kind |-> "notbytes", exc |-> "ValidationError", needs |-> "any"],
    [entry |-> "contains", arg |-> "key", kind |-> "notbytes", exc |-> "ValidationError", needs |-> "any"],
    [entry |-> "delete", arg |-> "key", kind |-> "notbytes", exc |-> "ValidationError", needs |-> "any"],
    [entry |-> "delitem", arg |-> "key", kind |-> "notbytes", exc |-> "ValidationError", needs |-> "any"],
    [entry |-> "get_proof", arg |-> "key", kind |-> "notbytes", exc |-> "ValidationError", needs |-> "any"],
    [entry |-> "set", arg |-> "key", kind |-> "notbytes", exc |-> "ValidationError", needs |-> "any"],
    [entry |-> "set", arg |-> "value", kind |-> "notbytes", exc |-> "ValidationError", needs |-> "any"],
    [entry |-> "setitem", arg |-> "key", kind |-> "notbytes", exc |-> "ValidationError", needs |-> "any"],
    [entry |-> "setitem", arg |-> "value", kind |-> "notbytes", exc |-> "ValidationError", needs |-> "any"],
    [entry |-> "get_from_proof", arg |-> "key", kind |-> "notbytes", exc |-> "ValidationError", needs |-> "any"],
    [entry |-> "get_from_proof", arg |-> "root", kind |-> "notbytes", exc |-> "ValidationError", needs |-> "any"],
    [entry |-> "constructor", arg |-> "root", kind |-> "notbytes", exc |-> "ValidationError", needs |-> "any"],
    [entry |-> "at_root", arg |-> "root", kind |-> "notbytes", exc |-> "ValidationError", needs |-> "nonpruning"],
    [entry |-> "at_root", arg |-> "root", kind |-> "valid", exc |-> "ValidationError", needs |-> "pruning"],
    [entry |-> "constructor", arg |-> "ref_count", kind |-> "given", exc |-> "ValueError", needs |-> "nonpruning"],
    [entry |-> "traverse", arg |-> "path", kind |-> "notsequence", exc |-> "TypeError", needs |-> "any"],
    [entry |-> "traverse", arg |-> "path", kind |-> "badnibble", exc |-> "ValueError", needs |-> "any"],
    [entry |-> "traverse_from", arg |-> "path", kind |-> "notsequence", exc |-> "TypeError", needs |-> "any"],
    [entry |-> "traverse_from", arg |-> "path", kind |-> "badnibble", exc |-> "ValueError", needs |-> "any"] }
RejectApplies(e) == \/ e.needs = "any"
                    \/ (e.needs = "pruning" /\ prune) \/ (e.needs = "nonpruning" /\ ~prune)
\* an ill-formed call, at any point of a history, on the outer trie or on the open batch:
\* refused with the tabulated exception; nothing changes
Rejected(e) ==
  /\ RejectApplies(e)
  /\ res' = OutKind("rejected")
  /\ Log([a |-> "reject", entry |-> e.entry, arg |-> e.arg, kind |-> e.kind, exc |-> e.exc,
          on |-> IF bopen /\ e.entry \notin {"constructor", "at_root", "get_from_proof"} THEN "batch" ELSE "outer",
          out |-> JOut(res')])
  /\ UNCHANGED <<prune, db, root, rc, contents, root2, contents2, bopen, cache, corder,
                 broot, brc, bcontents, bops, lost, past>>
DevNibs == {0, 1, 7, 15}
TravPaths(c) == PathsOf(Live(c), DevNibs)
Splits(p) == {<<Take(p, n), Drop(p, n)>> : n \in 0..Len(p)}
\* traverse(path) and traverse_from(traverse(prefix), seg) on the outer trie (read only)
OutTrav(o) == [kind |-> o.kind, n |-> o.n, prefix |-> o.trav, v |-> NoVal]
Traverse(p) ==
  /\ "trav" \in Features /\ ~bopen
  /\ res' = OutTrav(TravRoot(root, p, Only(db)))
  /\ Log([a |-> "trav", i |-> 1, k |-> p, out |-> JOut(res')])
  /\ UNCHANGED <<prune, db, root, rc, contents, root2, contents2, bopen, cache, corder,
                 broot, brc, bcontents, bops, lost, past>>
TraverseFrom(pre, seg) ==
  /\ "trav" \in Features /\ ~bopen
  /\ LET o == TravRoot(root, pre, Complete) IN
     /\ o.kind = "node" /\ o.n.t # "blank"
     /\ res' = OutTrav(TravFrom(o.n, seg, Only(db)))
  /\ Log([a |-> "travfrom", i |-> 1, k |-> pre, seg |-> seg, out |-> JOut(res')])
  /\ UNCHANGED <<prune, db, root, rc, contents, root2, contents2, bopen, cache, corder,
                 broot, brc, bcontents, bops, lost, past>>

\* (feature guards are repeated outside the quantifiers so that TLC does not enumerate
\* the bound sets of actions that are switched off)
Other == \/ \E k \in Keys : \E v \in Vals \cup {NoVal} :
             \/ Direct(k, v) \/ BatchOp(k, v)
             \/ ("second" \in Features /\ Direct2(k, v))
             \/ ("failwrite" \in Features /\ \E j \in 1..8 : FailWrite(k, v, j))
         \/ Commit \/ Abort
         \/ ("failwrite" \in Features /\ \E j \in 1..8 : CommitFail(j))
         \/ ("second" \in Features /\ \E p \in past : Adopt2(p))
         \/ ("checkout" \in Features /\ \E p \in past : Checkout(p))
         \/ ("lose" \in Features /\ \E n \in db : EnvLose(n))
         \/ ("lose" \in Features /\ \E n \in lost : EnvSupply(n))
         \/ ("get" \in Features /\ \E k \in LookupKeys : Get(k))
         \/ ("reject" \in Features /\ \E e \in HexRejects : Rejected(e))
         \/ ("trav" \in Features /\ \E p \in TravPaths(contents) : Traverse(p))
         \/ ("trav" \in Features /\ \E p \in TravPaths(contents) : \E sp \in Splits(p) : TraverseFrom(sp[1], sp[2]))
Next == Begin \/ (Other /\ UNCHANGED saved)
Spec == Init /\ [][Next]_vars

---------------------------------------------------------------------------
\* PROPERTIES

ModelVal(c, k) == IF k \in Keys THEN c[k] ELSE NoVal
\* C01  map refinement (on a complete database; lookups never raise)
MapRefinement ==
  lost = {} =>
    /\ \A k \in LookupKeys : GetOut(root, k, Only(db), Bugs) = GVal(ModelVal(contents, k))
    /\ bopen => \A k \in LookupKeys :
                   GetOut(broot, k, ScratchHas, Bugs) = GVal(ModelVal(bcontents, k))
    /\ \A k \in LookupKeys : GetOut(root2, k, Only(db), Bugs) = GVal(ModelVal(contents2, k))
\* the lookup algorithm agrees with the definition on every reachable trie
LookupAgrees == \A k \in LookupKeys : GetOut(root, k, Complete, Bugs) = GVal(Lookup(root, k))

\* C02  canonical root
Canonical == /\ root = Canon(AsMap(contents))
             /\ bopen => broot = Canon(AsMap(bcontents))
             /\ root2 = Canon(AsMap(contents2))
EmptyIsBlankRoot == (Live(contents) = {}) => root = Blank
\* the root is a function of the contents alone (consequence of Canonical, kept
\* as a separate named check of "independent of order, batching, pruning")
OrderIndependent == [][contents' = contents => root' = root]_vars
PairsAreContents == Pairs(root, <<>>) = {<<k, contents[k]>> : k \in Live(contents)}

\* C04  history is never lost by non-pruning tries
AppendOnly == [][(~prune /\ lost' = lost) => db \subseteq db']_vars
Readable == lost = {} => /\ Stored(root) \subseteq db
                         /\ Stored(root2) \subseteq db
                         /\ bopen => Stored(broot) \subseteq (db \cup CacheW)
PastRootsReadable ==
  (~prune /\ lost = {}) =>
     \A p \in past : /\ Stored(p.r) \subseteq db
                     /\ \A k \in LookupKeys :
                          GetOut(p.r, k, Only(db), Bugs) = GVal(ModelVal(p.c, k))
\* the root pointer moves only after every write of the operation succeeded
FailedWriteKeepsRoot == [][res'.kind = "ioerror" => root' = root /\ contents' = contents]_vars

\* C05  all-or-nothing batches
CommitExact == [][(bopen /\ ~bopen' /\ last'.a = "commit") =>
                     /\ root' = Canon(AsMap(bcontents))
                     /\ contents' = bcontents
                     /\ (lost = {} => Stored(root') \subseteq db')
                     /\ (~prune => db \subseteq db')
                     /\ (lost = {} /\ "lose" \notin Features /\ "second" \notin Features
                            => (db' \ saved.db) \subseteq Stored(root'))]_vars
AbortRestores == [][(bopen /\ ~bopen' /\ last'.a \in {"abort", "commitfail"}) =>
                       /\ root' = saved.root /\ contents' = saved.contents /\ rc' = saved.rc
                       /\ (last'.a = "abort" /\ lost' = {} /\ "lose" \notin Features
                              => db' = saved.db)
                       /\ (~prune /\ "lose" \notin Features => saved.db \subseteq db')]_vars
\* nothing outside the batch's own buffer changes while the block is open
OpenBatchIsolated == [][(bopen /\ bopen') =>
                           /\ root' = root /\ contents' = contents
                           /\ ("D3" \notin Bugs => rc' = rc)
                           /\ ("lose" \notin Features => db' = db)]_vars

\* C06  exact pruning, true counts
PruneExact == (prune /\ ~bopen /\ "lose" \notin Features) => db = Stored(root)
RcTrue == (prune /\ ~bopen /\ "lose" \notin Features) => rc = TrueRc(root)
RegenAgrees == TrueRc(root) = RegenRc(root)
\* what is left of the two above once a write has failed on a pruning trie: no count is ever below
\* the true one (so nothing live is ever pruned), and whatever is in the database beyond the live
\* nodes is counted
RcNeverLow == (prune /\ ~bopen /\ "lose" \notin Features) =>
                 \A n \in DOMAIN TrueRc(root) : Cnt(rc, n) >= TrueRc(root)[n]
LeftoversCounted == (prune /\ ~bopen /\ "lose" \notin Features) =>
                       \A n \in db \ Stored(root) : Cnt(rc, n) >= 1
BatchRcTrue == (prune /\ bopen /\ "lose" \notin Features) => brc = TrueRc(broot)

\* C07  (design level) no write precedes a read in any operation, hence a call
\* that fails on a missing node has not touched anything
NoWriteBeforeRead ==
  \A k \in Keys : \A v \in Vals \cup {NoVal} :
     LET e == Plan(IF bopen THEN broot ELSE root, k, v, Complete).e IN
     \A i \in IdxOf(e, "W") : \A j \in IdxOf(e, "R") : j < i
FailedCallUnchanged ==
  [][res'.kind \in {"missing", "verr"} =>
        UNCHANGED <<prune, db, root, rc, contents, root2, contents2, bopen, cache, corder,
                    broot, brc, bcontents, lost, past>>]_vars
\* a reported node is really absent and really on the path of the key
ReportedTruth ==
  [][res'.kind = "missing" =>
       LET inBatch == last'.a \in {"bset", "bget"}
           r0 == IF inBatch THEN broot ELSE IF last'.i = 2 THEN root2 ELSE root
           h == IF inBatch THEN ScratchHas ELSE Only(db)
           isDel == last'.a \in {"set", "bset"} /\ last'.v = JV(NoVal)
       IN /\ ~Can(h, res'.n)
          /\ res'.n \in NeededNodes(r0, last'.k) \cup (IF isDel THEN PathKids(r0, last'.k) ELSE {})
          /\ (last'.a \in {"get", "bget"} =>
                 \* the prefix is the nibble path leading to the missing node
                 /\ StartsWith(last'.k, res'.prefix)
                 /\ TravRoot(r0, res'.prefix, Complete).kind = "node"
                 /\ TravRoot(r0, res'.prefix, Complete).n = res'.n)]_vars
\* an operation that succeeds on an incomplete database gives the result it
\* would give on the complete one (the model contents are updated regardless
\* of what is lost), and the retry loop converges: supplying the reported node
\* strictly shrinks the set of absent nodes the operation needs
RECURSIVE RetryLen(_, _, _, _, _)
RetryLen(r0, k, v, S, asked) ==
  LET pl == Plan(r0, k, v, Only(S)) IN
  IF pl.miss = 0 THEN 0
  ELSE LET n == pl.e[pl.miss][2] IN
       IF n \in asked \/ n \in S THEN 1000 ELSE 1 + RetryLen(r0, k, v, S \cup {n}, asked \cup {n})
RetryConverges ==
  lost # {} => \A k \in Keys : \A v \in Vals \cup {NoVal} :
     RetryLen(IF bopen THEN broot ELSE root, k, v,
              IF bopen THEN CacheW \cup db ELSE db, {}) <= Cardinality(lost)
---------------------------------------------------------------------------
\* C08  traversals describe the canonical node at every path
TraverseMatchesCanon ==
  lost = {} => \A p \in TravPaths(contents) :
                  Describe(TravRoot(root, p, Only(db))) = NodeAt(AsMap(contents), p)
\* traverse_from(node at prefix, seg) = traverse(prefix \o seg), nibbles relative to the node
TraverseFromAgrees ==
  \A p \in TravPaths(contents) : \A sp \in Splits(p) :
     LET a == TravRoot(root, sp[1], Complete)
         whole == TravRoot(root, p, Complete)
     IN IF a.kind = "node" /\ a.n.t # "blank"
        THEN LET f == TravFrom(a.n, sp[2], Complete) IN
             /\ f.kind = whole.kind /\ f.n = whole.n /\ f.tail = whole.tail
             /\ sp[1] \o f.trav = whole.trav
             /\ f.reads <= f.hops
        ELSE IF a.kind = "partial" /\ sp[2] # <<>>
        THEN \* continuing from the simulated node reaches the same place
             LET f == TravFrom(Sim(a), sp[2], Complete) IN
             /\ f.kind = whole.kind
             /\ (f.kind = "node" => f.n = whole.n)
             /\ (f.kind = "partial" => Sim(f) = Sim(whole))
        ELSE TRUE
RootNodeIsTraverseEmpty == TravRoot(root, <<>>, Complete).n = root

\* C07 for traversals: on an incomplete database a traversal gives the complete
\* answer or names an absent node with the exact nibble path leading to it
TraverseTruth ==
  \A p \in TravPaths(contents) :
     LET o == TravRoot(root, p, Only(db))
         oc == TravRoot(root, p, Complete)
     IN IF o.kind = "missing"
        THEN /\ o.n \notin db /\ (IsHashed(o.n) \/ o.n = root)
             /\ StartsWith(p, o.trav)
             /\ LET t == TravRoot(root, o.trav, Complete) IN t.kind = "node" /\ t.n = o.n
        ELSE Describe(o) = Describe(oc)

\* a lookup that does not fail gives the complete-database answer
GetSameAsComplete ==
  \A k \in LookupKeys :
     LET g == GetOut(root, k, Only(db), Bugs) IN
     g.kind = "missing" \/ g = GVal(ModelVal(contents, k))

\* C18  a refused call changes nothing (and, since TLC interleaves Rejected with every other
\* action, every invariant above holds on every continuation: "as if the call had not been made")
RejectedUnchanged ==
  [][last'.a = "reject" =>
        UNCHANGED <<prune, db, root, rc, contents, root2, contents2, bopen, cache, corder,
                    broot, brc, bcontents, lost, past>>]_vars

\* C10  iteration: next() is the strict successor, the pre-order walk yields sorted items
IterQueries == LookupKeys
KeyAfterIsSucc == \A q \in IterQueries : KeyAfter(root, q) = SuccOf(Live(contents), q)
FirstIsMin == NextKeyIn(root, <<>>) = MinKey(Live(contents))
RECURSIVE ItemsOf(_, _)
ItemsOf(pre, i) == IF i > Len(pre) THEN <<>>
                   ELSE (IF NodeValue(pre[i].n) # NoVal
                         THEN << <<pre[i].p \o Suffix(pre[i].n), NodeValue(pre[i].n)>> >> ELSE <<>>)
                        \o ItemsOf(pre, i + 1)
PreorderItemsSorted ==
  LET ks == SortedKeys(Live(contents)) IN
  ItemsOf(Preorder(root, <<>>), 1) = [i \in 1..Len(ks) |-> <<ks[i], contents[ks[i]]>>]
\* every node of the pre-order is what a traversal of its prefix returns
PreorderIsTraverse ==
  LET pre == Preorder(root, <<>>) IN
  \A i \in 1..Len(pre) : LET o == TravRoot(root, pre[i].p, Complete) IN o.kind = "node" /\ o.n = pre[i].n

\* C03  proofs
ProofSet(r, k) == LET pf == Proof(r, k) IN {pf[i] : i \in 1..Len(pf)}
ProofComplete ==
  lost = {} => \A k \in LookupKeys :
     VerifyProof(root, k, ProofSet(root, k), Bugs) = [kind |-> "val", v |-> ModelVal(contents, k)]
ProofOnPath == \A k \in LookupKeys : ProofSet(root, k) \subseteq PathNodes(root, k)
\* whatever subset of the needed nodes a verifier is given (together with anything
\* else: under content addressing other nodes cannot matter), it obtains the value
\* the trie with that root really holds, or refuses; it refuses whenever a hashed
\* node on the path is withheld
ProofSound ==
  \A pr \in past \cup {[r |-> root, c |-> contents]} : \A k \in LookupKeys :
     \A PP \in SUBSET NeededNodes(pr.r, k) :
        LET out == VerifyProof(pr.r, k, PP \cup (db \ NeededNodes(pr.r, k)), Bugs) IN
        /\ out \in {[kind |-> "val", v |-> Lookup(pr.r, k)], [kind |-> "bad", v |-> NoVal]}
        /\ (PP # NeededNodes(pr.r, k) => out.kind = "bad")
        /\ (PP = NeededNodes(pr.r, k) => out.kind = "val")
=============================================================================
