----------------------------- MODULE ScratchDB -----------------------------
(***************************************************************************)
(* trie.utils.db.ScratchDB: a write buffer over a wrapped mapping.          *)
(*   cache    what the code keeps: key -> buffered value or DELETED marker  *)
(*   latest   ghost, the DEFINITION the property talks about: the latest    *)
(*            buffered action per key since the buffer was last emptied     *)
(* Every dictionary call and every way of leaving batch_commit is one       *)
(* action.  Reads, membership tests and copy() do not change the state;     *)
(* they are observables of every state (ReadOut, HasOut, CopyOut) so that   *)
(* the conformance replay performs them after every transition.           *)
(***************************************************************************)
EXTENDS Naturals, Sequences, FiniteSets, TLC
CONSTANTS Keys, Vals, ExitKinds
VARIABLES wrapped, cache, latest, open, dodel, last, hist
vars == <<wrapped, cache, latest, open, dodel, last, hist>>

Absent == "absent"
DEL == "deleted"
None == "none"

Log(rec) == hist' = Append(hist, rec) /\ last' = rec

Init == /\ wrapped \in [Keys -> Vals \cup {Absent}]
        /\ cache = [k \in Keys |-> Absent]
        /\ latest = [k \in Keys |-> None]
        /\ open = FALSE /\ dodel = FALSE
        /\ last = [a |-> "init", w |-> wrapped] /\ hist = << [a |-> "init", w |-> wrapped] >>

\* db[key] = value
Write(k, v) == /\ cache' = [cache EXCEPT ![k] = v]
               /\ latest' = [latest EXCEPT ![k] = v]
               /\ Log([a |-> "write", k |-> k, v |-> v])
               /\ UNCHANGED <<wrapped, open, dodel>>
\* del db[key]
Delete(k) == /\ cache' = [cache EXCEPT ![k] = DEL]
             /\ latest' = [latest EXCEPT ![k] = DEL]
             /\ Log([a |-> "delete", k |-> k])
             /\ UNCHANGED <<wrapped, open, dodel>>
\* with db.batch_commit(do_deletes=d):
Enter(d) == /\ ~open /\ open' = TRUE /\ dodel' = d
            /\ Log([a |-> "enter", d |-> d])
            /\ UNCHANGED <<wrapped, cache, latest>>
\* the block ends normally: the buffer is applied, then emptied
Applied(w, c, d) == [k \in Keys |-> IF c[k] = Absent THEN w[k]
                                    ELSE IF c[k] = DEL THEN (IF d THEN Absent ELSE w[k])
                                    ELSE c[k]]
ExitNormal == /\ open /\ open' = FALSE
              /\ wrapped' = Applied(wrapped, cache, dodel)
              /\ cache' = [k \in Keys |-> Absent] /\ latest' = [k \in Keys |-> None]
              /\ Log([a |-> "exit"])
              /\ UNCHANGED dodel
\* the block is left by an exception (an Exception subclass, or a BaseException
\* such as KeyboardInterrupt): nothing is applied, the buffer is emptied
ExitExc(kind) == /\ open /\ open' = FALSE
                 /\ cache' = [k \in Keys |-> Absent] /\ latest' = [k \in Keys |-> None]
                 /\ Log([a |-> "raise", kind |-> kind])
                 /\ UNCHANGED <<wrapped, dodel>>

Next == \/ \E k \in Keys : (\E v \in Vals : Write(k, v)) \/ Delete(k)
        \/ \E d \in BOOLEAN : Enter(d)
        \/ ExitNormal
        \/ \E kind \in ExitKinds : ExitExc(kind)
Spec == Init /\ [][Next]_vars

---------------------------------------------------------------------------
\* observables: what the dictionary API answers in the current state
\* (transcription of __getitem__, __contains__, copy)
ReadOut(k) == IF cache[k] \notin {Absent, DEL} THEN cache[k]
              ELSE IF wrapped[k] # Absent THEN wrapped[k] ELSE "KeyError"
HasOut(k) == (cache[k] \notin {Absent, DEL}) \/ wrapped[k] # Absent
CopyOut == {<<k, v>> \in Keys \X Vals :
              IF cache[k] = Absent THEN wrapped[k] = v ELSE cache[k] = v}

\* PROPERTIES (C17), stated with the ghost `latest`, not with the cache
\* the wrapped database is written only by the normal end of a batch
WrappedOnlyOnCommit == [][wrapped' # wrapped => last'.a = "exit"]_vars
NeverWrittenWhileOpen == [][(open /\ open') => wrapped' = wrapped]_vars
\* reads see the latest buffered write; a key whose latest buffered action is a
\* delete (or that was not touched) reads through to the wrapped database
ReadSeesLatest ==
  \A k \in Keys : ReadOut(k) = IF latest[k] \notin {None, DEL} THEN latest[k]
                               ELSE IF wrapped[k] # Absent THEN wrapped[k] ELSE "KeyError"
ContainsAgrees == \A k \in Keys : HasOut(k) = (ReadOut(k) # "KeyError")
\* normal exit: last action per key wins; deletes only when requested
CommitApplies ==
  [][last'.a = "exit" =>
       \A k \in Keys : wrapped'[k] = IF latest[k] = None THEN wrapped[k]
                                     ELSE IF latest[k] = DEL
                                          THEN (IF dodel THEN Absent ELSE wrapped[k])
                                          ELSE latest[k]]_vars
AbortKeeps == [][last'.a = "raise" => wrapped' = wrapped]_vars
BufferEmptiedOnExit == [][last'.a \in {"exit", "raise"} =>
                             \A k \in Keys : cache'[k] = Absent]_vars
\* the code's representation is the definition
CacheIsLatest == \A k \in Keys : cache[k] = IF latest[k] = None THEN Absent ELSE latest[k]
=============================================================================
