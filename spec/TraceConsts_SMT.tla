---- MODULE TraceConsts_SMT ----
(* stub: replaced in the scratch copy by literal constants generated from the trace batch *)
TKeys == {<<0,0,0,0,0,0,0,0>>}
TVals == {[tag |-> 1, len |-> 1]}
TDefaults == {[tag |-> 0, len |-> 0]}
TTrunc == {0}
TDepth == 8
====
