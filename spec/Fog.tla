-------------------------------- MODULE Fog --------------------------------
(***************************************************************************)
(* trie.fog.HexaryTrieFog as a value: the set of unexplored nibble          *)
(* prefixes.  explore / mark_all_complete return a new fog; the receiver    *)
(* is never modified (the conformance replay keeps every earlier fog object  *)
(* and re-examines it at the end of the behaviour).                         *)
(*   DEFINITIONS  : Replace, Antichain, the query contracts *OK             *)
(*   TRANSCRIPTION: Explore's validation, NearestUnknown (bisect + prefix   *)
(*                  distance tie-break), NearestRight                       *)
(***************************************************************************)
EXTENDS Naturals, Integers, Sequences, FiniteSets, TLC
CONSTANTS SegSets,      \* valid sets of sub-segments offered to explore
          BadSegSeqs,   \* invalid sequences of sub-segments (duplicates, nested)
          QueryKeys,    \* keys given to nearest_unknown / nearest_right
          Strangers     \* prefixes that may be named although they are not in the fog
VARIABLES fog, last, hist
vars == <<fog, last, hist>>

Take(s, n) == SubSeq(s, 1, n)
StartsWith(full, part) == Len(full) >= Len(part) /\ Take(full, Len(part)) = part
RECURSIVE SeqLess(_, _)
SeqLess(a, b) == IF b = <<>> THEN FALSE
                 ELSE IF a = <<>> THEN TRUE
                 ELSE IF Head(a) < Head(b) THEN TRUE
                 ELSE IF Head(a) > Head(b) THEN FALSE
                 ELSE SeqLess(Tail(a), Tail(b))
SeqLeq(a, b) == a = b \/ SeqLess(a, b)
ToSet(s) == {s[i] : i \in 1..Len(s)}

\* DEFINITION: no unexplored prefix starts with another
Antichain(f) == \A a \in f : \A b \in f : a # b => ~StartsWith(a, b)
\* DEFINITION: an explored prefix is replaced by its continuations
Replace(f, p, S) == (f \ {p}) \cup {p \o s : s \in S}
PrefixFree(S) == \A a \in S : \A b \in S : a # b => ~StartsWith(a, b)

\* TRANSCRIPTION of explore()'s validation over a sequence of segments
ExploreValid(f, p, segs) ==
  /\ p \in f
  /\ Cardinality(ToSet(segs)) = Len(segs)
  /\ LET lens == {Len(segs[i]) : i \in 1..Len(segs)} IN
     Cardinality(lens) > 1 =>
        \A i \in 1..Len(segs) : \A n \in {m \in lens : m < Len(segs[i])} :
           Take(segs[i], n) \notin ToSet(segs)

Log(rec) == hist' = Append(hist, rec) /\ last' = rec
Init == fog = {<<>>} /\ last = [a |-> "init"] /\ hist = <<>>

Explore(p, S) == /\ p \in fog
                 /\ fog' = Replace(fog, p, S)
                 /\ Log([a |-> "explore", p |-> p, segs |-> S, ok |-> TRUE])
\* refused: unknown prefix, duplicate or nested sub-segments; nothing changes
ExploreRefused(p, segs) ==
  /\ ~ExploreValid(fog, p, segs)
  /\ Log([a |-> "explore", p |-> p, segs |-> segs, ok |-> FALSE])
  /\ UNCHANGED fog
MarkAllComplete(P) == /\ P \subseteq fog /\ P # {}
                      /\ fog' = fog \ P
                      /\ Log([a |-> "mark", ps |-> P, ok |-> TRUE])
MarkRefused(ps) ==    \* a prefix that is not unexplored, or one listed twice
  /\ (\E i \in 1..Len(ps) : ps[i] \notin fog) \/ Cardinality(ToSet(ps)) # Len(ps)
  /\ Log([a |-> "mark", ps |-> ps, ok |-> FALSE])
  /\ UNCHANGED fog

\* C18: malformed nibble sequences are refused (TypeError / ValueError) without effect
FogRejects ==
  { [entry |-> "explore", arg |-> "prefix", kind |-> "notsequence", exc |-> "TypeError", needs |-> "any"],
    [entry |-> "explore", arg |-> "prefix", kind |-> "badnibble", exc |-> "ValueError", needs |-> "any"],
    [entry |-> "explore", arg |-> "segments", kind |-> "badnibble", exc |-> "ValueError", needs |-> "any"],
    [entry |-> "explore", arg |-> "segments", kind |-> "notsequence", exc |-> "TypeError", needs |-> "any"],
    [entry |-> "mark_all_complete", arg |-> "prefixes", kind |-> "badnibble", exc |-> "ValueError", needs |-> "any"],
    [entry |-> "nearest_unknown", arg |-> "key", kind |-> "notsequence", exc |-> "TypeError", needs |-> "any"],
    [entry |-> "nearest_unknown", arg |-> "key", kind |-> "badnibble", exc |-> "ValueError", needs |-> "any"],
    [entry |-> "nearest_right", arg |-> "key", kind |-> "notsequence", exc |-> "TypeError", needs |-> "any"],
    [entry |-> "nearest_right", arg |-> "key", kind |-> "badnibble", exc |-> "ValueError", needs |-> "any"],
    [entry |-> "Nibbles", arg |-> "arg", kind |-> "notsequence", exc |-> "TypeError", needs |-> "any"],
    [entry |-> "Nibbles", arg |-> "elem", kind |-> "badnibble", exc |-> "ValueError", needs |-> "any"],
    [entry |-> "Nibbles", arg |-> "concatenated", kind |-> "badnibble", exc |-> "ValueError", needs |-> "any"],
    [entry |-> "explore", arg |-> "concatenated", kind |-> "badnibble", exc |-> "ValueError", needs |-> "any"] }
Rejected(e) == /\ Log([a |-> "reject", entry |-> e.entry, arg |-> e.arg, kind |-> e.kind, exc |-> e.exc, ok |-> FALSE])
               /\ UNCHANGED fog
NextR == \E e \in FogRejects : Rejected(e)
Next == \/ \E p \in fog : \E S \in SegSets : Explore(p, S)
        \/ \E p \in fog \cup Strangers : \E S \in SegSets : ExploreRefused(p, [i \in 1..0 |-> <<>>])
        \/ \E p \in Strangers \ fog : \E S \in SegSets :
              \E sq \in {sq \in [1..Cardinality(S) -> S] : ToSet(sq) = S} : ExploreRefused(p, sq)
        \/ \E p \in fog : \E sq \in BadSegSeqs : ExploreRefused(p, sq)
        \/ \E P \in SUBSET fog : MarkAllComplete(P)
        \/ \E p \in fog : \E s \in Strangers \ fog : MarkRefused(<<p, s>>)
        \/ \E p \in fog : MarkRefused(<<p, p>>)
Spec == Init /\ [][Next]_vars
SpecR == Init /\ [][Next \/ NextR]_vars

---------------------------------------------------------------------------
\* TRANSCRIPTION of the queries.  sorted = the SortedSet; bisect = bisect_right
Below(f, q) == {p \in f : SeqLeq(p, q)}
Above(f, q) == {p \in f : SeqLess(q, p)}
MaxOf(S) == CHOOSE x \in S : \A y \in S : SeqLeq(y, x)
MinOf(S) == CHOOSE x \in S : \A y \in S : SeqLeq(x, y)
\* _prefix_distance(low, high): element-wise high - low, low padded with 15, high with 0
Dist(low, high) ==
  [i \in 1..(IF Len(low) > Len(high) THEN Len(low) ELSE Len(high)) |->
     (IF i <= Len(high) THEN high[i] ELSE 0) - (IF i <= Len(low) THEN low[i] ELSE 15)]
RECURSIVE IntSeqLess(_, _)
IntSeqLess(a, b) == IF b = <<>> THEN FALSE
                    ELSE IF a = <<>> THEN TRUE
                    ELSE IF a[1] < b[1] THEN TRUE
                    ELSE IF a[1] > b[1] THEN FALSE
                    ELSE IntSeqLess(Tail(a), Tail(b))
\* an answer is a prefix or an exception
Ans(p) == [exc |-> "", p |-> p]
Exc(e) == [exc |-> e, p |-> <<>>]
NearestUnknown(f, q) ==
  IF f = {} THEN Exc("PerfectVisibility")
  ELSE IF Below(f, q) = {} THEN Ans(MinOf(f))
  ELSE IF Above(f, q) = {} THEN Ans(MaxOf(f))
  ELSE LET l == MaxOf(Below(f, q))
           r == MinOf(Above(f, q))
       IN IF IntSeqLess(Dist(l, q), Dist(q, r)) THEN Ans(l) ELSE Ans(r)
NearestRight(f, q) ==
  IF f = {} THEN Exc("PerfectVisibility")
  ELSE IF Below(f, q) = {} THEN Ans(MinOf(f))
  ELSE LET l == MaxOf(Below(f, q)) IN
       IF StartsWith(q, l) THEN Ans(l)
       ELSE IF Above(f, q) = {} THEN Exc("FullDirectionalVisibility") ELSE Ans(MinOf(Above(f, q)))

\* DEFINITIONS: what the property demands of the answers
Containing(f, q) == {p \in f : StartsWith(q, p)}
Neighbours(f, q) == (IF Below(f, q) = {} THEN {} ELSE {MaxOf(Below(f, q))})
                    \cup (IF Above(f, q) = {} THEN {} ELSE {MinOf(Above(f, q))})
AcceptNU(f, q) == IF f = {} THEN {Exc("PerfectVisibility")}
                  ELSE IF Containing(f, q) # {} THEN {Ans(p) : p \in Containing(f, q)}
                  ELSE {Ans(p) : p \in Neighbours(f, q)}
AcceptNR(f, q) == IF f = {} THEN {Exc("PerfectVisibility")}
                  ELSE IF Containing(f, q) # {} THEN {Ans(p) : p \in Containing(f, q)}
                  ELSE IF Above(f, q) = {} THEN {Exc("FullDirectionalVisibility")}
                  ELSE {Ans(MinOf(Above(f, q)))}

---------------------------------------------------------------------------
\* PROPERTIES (C11)
IsAntichain == Antichain(fog)
QueriesOK == \A q \in QueryKeys : /\ NearestUnknown(fog, q) \in AcceptNU(fog, q)
                                  /\ NearestRight(fog, q) \in AcceptNR(fog, q)
AtMostOneContaining == \A q \in QueryKeys : Cardinality(Containing(fog, q)) <= 1
\* independent explorations commute
Commute == \A p \in fog : \A q \in fog \ {p} : \A S \in SegSets : \A T \in SegSets :
             Replace(Replace(fog, p, S), q, T) = Replace(Replace(fog, q, T), p, S)
\* mark_all_complete(P) is the same as exploring each member with no continuation
RECURSIVE ExploreAll(_, _)
ExploreAll(f, P) == IF P = {} THEN f
                    ELSE LET p == CHOOSE p \in P : TRUE IN ExploreAll(Replace(f, p, {}), P \ {p})
MarkIsExplores == [][last'.a = "mark" /\ last'.ok => fog' = ExploreAll(fog, last'.ps)]_vars
\* the validation accepts exactly the duplicate-free, prefix-free segment lists on known prefixes
ValidationExact ==
  \A p \in fog \cup Strangers : \A sq \in BadSegSeqs \cup {<<>>} :
     ExploreValid(fog, p, sq) <=> (p \in fog /\ Cardinality(ToSet(sq)) = Len(sq) /\ PrefixFree(ToSet(sq)))
RefusedUnchanged == [][~last'.ok => fog' = fog]_vars
=============================================================================
