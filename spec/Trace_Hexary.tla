---------------------------- MODULE Trace_Hexary ----------------------------
(***************************************************************************)
(* Code -> specification: validates a batch of traces recorded from the     *)
(* real trie.HexaryTrie.  Every event is one public call (or environment    *)
(* step) with its arguments, its outcome and the observed state; it is      *)
(* matched with the action of HexaryTrie.tla of the same name, and the      *)
(* observed outcome/state is judged by named clauses:                       *)
(*    Cnn.<clause>    acceptance predicate of property Cnn  (a verdict)     *)
(*    mirror.<clause> equality with the transcription       (a note)        *)
(* A failing clause is printed and the rest of that trace is skipped.       *)
(***************************************************************************)
EXTENDS HexaryTrie, TraceConsts_Hexary, Json, IOUtils, TLCExt

Traces == JsonDeserialize(IOEnv.TRACE_FILE)
TBoth == {TRUE, FALSE}
TFeatures == {"direct", "batch", "second", "checkout", "lose", "failwrite", "get", "noop"}
TNoBugs == {}
Big == 100000
VARIABLES tid, l, bad, odb, sodb
tvars == <<vars, tid, l, bad, odb, sodb>>

V(j) == [tag |-> j[1], len |-> j[2]]
ToSet(s) == {s[i] : i \in 1..Len(s)}
InflSet(s) == {Inflate(s[i]) : i \in 1..Len(s)}
ToBag(s) == [n \in {Inflate(s[i][1]) : i \in 1..Len(s)} |->
               LET i == CHOOSE i \in 1..Len(s) : Inflate(s[i][1]) = n IN s[i][2]]
\* hashed flags chosen by the real encoder agree with the < 32 byte rule
RECURSIVE FlagsOK(_, _)
FlagsOK(j, isRoot) ==
  IF j = <<>> THEN TRUE
  ELSE LET h == j[Len(j)]
           n == Inflate(j)
       IN /\ (isRoot \/ ((h = 1) <=> IsHashed(n)))
          /\ CASE j[1] = "L" -> TRUE
               [] j[1] = "E" -> FlagsOK(j[3], FALSE)
               [] j[1] = "B" -> \A i \in 1..16 : FlagsOK(j[2][i], FALSE)

Tr == Traces[tid]
Fail(c) == PrintT(ToJson([fail |-> <<tid, l, c>>]))

TraceInit ==
  /\ Init /\ prune = Traces[1].prune
  /\ tid = 1 /\ l = 1 /\ bad = FALSE /\ odb = {} /\ sodb = {}

\* the specification action that corresponds to the logged event
Act(ev) ==
  CASE ev.a = "set" /\ ev.i = 1 -> Direct(ev.k, V(ev.v))
    [] ev.a = "set" /\ ev.i = 2 -> Direct2(ev.k, V(ev.v))
    [] ev.a = "bset" -> BatchOp(ev.k, V(ev.v))
    [] ev.a = "commit" -> Commit
    [] ev.a = "abort" -> Abort
    [] ev.a = "commitfail" -> CommitFail(ev.j)
    [] ev.a = "failwrite" -> FailWrite(ev.k, V(ev.v), ev.j)
    [] ev.a = "adopt" -> \E p \in past : p.r = Inflate(ev.root) /\ Adopt2(p)
    [] ev.a = "checkout" -> \E p \in past : p.r = Inflate(ev.root) /\ Checkout(p)
    [] ev.a = "lose" -> EnvLose(Inflate(ev.n))
    [] ev.a = "supply" -> EnvSupply(Inflate(ev.n))
    [] ev.a \in {"get", "bget"} -> Get(ev.k)

\* which trie the event addressed, after the step
RootOf(ev) == IF ev.a \in {"bset", "bget"} THEN broot' ELSE IF ev.i = 2 THEN root2' ELSE root'
ContOf(ev) == IF ev.a \in {"bset", "bget"} THEN bcontents' ELSE IF ev.i = 2 THEN contents2' ELSE contents'
PreRoot(ev) == IF ev.a \in {"bset", "bget"} THEN broot ELSE IF ev.i = 2 THEN root2 ELSE root
PreHas(ev) == IF ev.a \in {"bset", "bget"} THEN ScratchHas ELSE Only(db)
IsWrite(ev) == ev.a \in {"set", "bset"}
IsDel(ev) == IsWrite(ev) /\ ev.v = <<0, 0>>
Clean == ~Tr.faults

\* ------------------------------------------------------------ clauses
\* each clause: <<name, holds>>, evaluated after the specification action
Clauses(ev) ==
  LET st == ev.st
      o == ev.out
      obsRoot == Inflate(st.root)
      canon == Canon(AsMap(ContOf(ev)))
      mutOK == IsWrite(ev) /\ o.kind = "ok" /\ res'.kind = "ok"
  IN {
   \* the observed outcome class is the one the transcription predicts
   <<"mirror.outcome", o.kind = res'.kind>>,
   \* C01: a lookup on a complete database returns the model's value
   <<"C01.get", (ev.a \in {"get", "bget"} /\ lost = {}) =>
                   (o.kind = "val" /\ V(o.v) = ModelVal(ContOf(ev), ev.k))>>,
   <<"C01.look", (lost' = {} /\ o.kind = res'.kind) =>
                   \A i \in 1..Len(st.look) :
                      V(st.look[i][2]) = ModelVal(ContOf(ev), st.look[i][1])>>,
   \* C02: the observed root structure is the canonical trie of the contents,
   \* the real encoder's sizes and embed/hash decisions are the specified ones
   <<"C02.root", (o.kind = res'.kind /\ ev.a \notin {"lose", "supply"}) => obsRoot = canon>>,
   <<"C02.sizes", SizesOK(st.root) /\ FlagsOK(st.root, TRUE)>>,
   \* C04: a non-pruning trie only ever adds entries
   <<"C04.appendonly", (~prune /\ ev.a \notin {"lose", "supply"}) => st.del = <<>>>>,
   <<"C04.failedwrite", (o.kind = "ioerror") => obsRoot = PreRoot(ev)>>,
   \* C05: commit / abort
   <<"C05.abort", (ev.a \in {"abort", "commitfail"}) =>
                    /\ obsRoot = saved.root
                    /\ (prune => ToBag(st.rc) = saved.rc)
                    /\ ((ev.a = "abort" /\ Clean) => odb' = sodb)
                    /\ ((ev.a = "commitfail") => sodb \subseteq odb')>>,
   <<"C05.commit", (ev.a = "commit" /\ o.kind = "ok") =>
                    /\ obsRoot = Canon(AsMap(bcontents))
                    /\ (Clean => Stored(obsRoot) \subseteq odb')
                    /\ (~prune => sodb \subseteq odb')
                    /\ (Clean => (odb' \ sodb) \subseteq Stored(obsRoot))>>,
   \* C06: exact pruning and true counts (outer trie, no batch open)
   <<"C06.exact", (prune /\ ~bopen' /\ Clean /\ o.kind = res'.kind) => odb' = Stored(Canon(AsMap(contents')))>>,
   <<"C06.rc", (prune /\ ~bopen' /\ Clean /\ o.kind = res'.kind) =>
                   ToBag(st.rc) = TrueRc(Canon(AsMap(contents')))>>,
   <<"C06.readable", (Clean /\ ~bopen' /\ o.kind = res'.kind) => Stored(Canon(AsMap(contents'))) \subseteq odb'>>,
   \* C07: a reported missing node is really absent and really needed; the
   \* prefix of a lookup is the exact path to it; nothing changed
   <<"C07.truth", (o.kind = "missing") =>
                    LET n == Inflate(o.n) IN
                    /\ ~Can(PreHas(ev), n)
                    /\ n \in NeededNodes(PreRoot(ev), ev.k)
                            \cup (IF IsDel(ev) THEN PathKids(PreRoot(ev), ev.k) ELSE {})>>,
   <<"C07.prefix", (o.kind = "missing" /\ ev.a \in {"get", "bget"}) =>
                    /\ StartsWith(ev.k, o.prefix)
                    /\ TravRoot(PreRoot(ev), o.prefix, Complete).n = Inflate(o.n)>>,
   <<"C07.unchanged", (o.kind = "missing") => (st.add = <<>> /\ st.del = <<>> /\ obsRoot = PreRoot(ev)
                                               /\ (prune /\ ~bopen => ToBag(st.rc) = rc))>>,
   <<"C07.sameascomplete", (ev.a \in {"get", "bget"} /\ o.kind = "val") =>
                              V(o.v) = ModelVal(ContOf(ev), ev.k)>>,
   <<"C07.rootkey", (o.kind = "missing") => o.rootok>>,
   <<"C07.needless", (o.kind = "missing" /\ res'.kind # "missing") => FALSE>>,
   \* mirror: the database is exactly what the transcription writes and prunes
   <<"mirror.db", (o.kind = res'.kind) => odb' = db'>>,
   <<"mirror.rc", (prune /\ ~bopen' /\ o.kind = res'.kind) => ToBag(st.rc) = rc'>>
  }

StepEv ==
  /\ tid <= Len(Traces) /\ ~bad /\ l <= Len(Tr.ev)
  /\ LET ev == Tr.ev[l] IN
     /\ IF ev.a = "begin" THEN Begin /\ sodb' = odb ELSE Act(ev) /\ UNCHANGED <<saved, sodb>>
     /\ odb' = (odb \cup InflSet(ev.st.add)) \ InflSet(ev.st.del)
     /\ LET failing == {c \in Clauses(ev) : ~c[2]} IN
        /\ \A c \in failing : Fail(c[1])
        /\ bad' = (failing # {})
  /\ l' = l + 1 /\ tid' = tid

\* end of a trace (or a failed one): report, reset every variable, next trace
Finish ==
  /\ tid <= Len(Traces) /\ (bad \/ l > Len(Tr.ev))
  /\ PrintT(ToJson([done |-> tid, steps |-> l - 1]))
  /\ tid' = tid + 1 /\ l' = 1 /\ bad' = FALSE /\ odb' = {} /\ sodb' = {}
  /\ prune' = IF tid < Len(Traces) THEN Traces[tid + 1].prune ELSE FALSE
  /\ db' = {} /\ root' = Blank /\ rc' = EmptyBag /\ contents' = EmptyContents
  /\ root2' = Blank /\ contents2' = EmptyContents
  /\ bopen' = FALSE /\ cache' = NoCache /\ corder' = <<>> /\ broot' = Blank
  /\ brc' = EmptyBag /\ bcontents' = EmptyContents /\ bops' = 0
  /\ lost' = {} /\ past' = {[r |-> Blank, c |-> EmptyContents]}
  /\ saved' = [db |-> {}, root |-> Blank, rc |-> EmptyBag, contents |-> EmptyContents]
  /\ res' = OutKind("init") /\ last' = [a |-> "init"] /\ hist' = <<>>

TraceNext == StepEv \/ Finish
TraceSpec == TraceInit /\ [][TraceNext]_tvars
=============================================================================
