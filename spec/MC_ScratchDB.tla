--------------------------- MODULE MC_ScratchDB ---------------------------
EXTENDS ScratchDB, Json, TLCExt
K3 == {"a", "b", "c"}
K2 == {"a", "b"}
V2 == {"x", ""}       \* the empty byte string is a value like any other
BothExits == {"Exception", "BaseException"}
View == <<wrapped, cache, latest, open, dodel>>
Bounded(n) == Init /\ [][TLCGet("level") < n /\ Next]_vars
ViewHist == <<wrapped, cache, latest, open, dodel, hist>>
SpecL6 == Bounded(6)
SpecL7 == Bounded(7)
SpecL8 == Bounded(8)
Obs == [wrapped |-> {<<k, wrapped[k]>> : k \in Keys},
        read |-> {<<k, ReadOut(k)>> : k \in Keys},
        has |-> {<<k, HasOut(k)>> : k \in Keys},
        copy |-> CopyOut,
        open |-> open,
        buffered |-> {k \in Keys : cache[k] # Absent},
        deleted |-> {k \in Keys : latest[k] = DEL}]
Emit == PrintT(ToJson([h |-> hist', st |-> Obs']))
=============================================================================
