---- MODULE TraceConsts_Fog ----
(* the trace reader needs none of the constants of Fog.tla *)
TNone == {}
====
