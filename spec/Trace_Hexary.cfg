SPECIFICATION TraceSpec
CONSTANTS
  Keys <- TKeys
  LookupKeys <- TLook
  Vals <- TVals
  MaxLive <- Big
  MaxBatchOps <- Big
  MaxLost <- Big
  PruneModes <- TBoth
  Features <- TFeatures
  Bugs <- TNoBugs
INVARIANT Canonical
CHECK_DEADLOCK FALSE
