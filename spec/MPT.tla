------------------------------- MODULE MPT -------------------------------
(***************************************************************************)
(* Pure operators of the hexary Merkle Patricia trie of ethereum/py-trie.   *)
(*                                                                         *)
(* Hash abstraction: the hash of a node IS the node.  A hashed reference    *)
(* is the nested child itself; a database is a set of nodes.  Every node    *)
(* carries the exact length `sz` of its RLP encoding, so the Yellow-Paper   *)
(* rule "a node shorter than 32 bytes is embedded, otherwise referenced by  *)
(* hash" is decided here (IsHashed) and checked against the real encoder    *)
(* by the conformance harness.                                              *)
(*                                                                         *)
(* Two kinds of operators live here, deliberately independent:              *)
(*   - DEFINITIONS the properties talk about: Canon, Lookup, Stored,        *)
(*     TrueRc, NodeAt ...  (written from the Yellow Paper / the statement)  *)
(*   - TRANSCRIPTIONS of trie/hexary.py: SetN, DelN, Normalize, Trav,       *)
(*     GetOut, Proof ... with ordered effect logs (R read, W write,         *)
(*     P prune) mirroring get_node / _persist_node / _prune_node.           *)
(***************************************************************************)
EXTENDS Naturals, Integers, Sequences, FiniteSets, TLC

Nib == 0..15
NoVal == [tag |-> 0, len |-> 0]

\* ---------------------------------------------------------------- RLP sizes
\* byte string of length len whose bytes all equal tag
ValRlp(v) == IF v.len = 0 THEN 1
             ELSE IF v.len = 1 /\ v.tag < 128 THEN 1
             ELSE IF v.len < 56 THEN 1 + v.len
             ELSE IF v.len < 256 THEN 2 + v.len ELSE 3 + v.len
\* hex-prefix encoding of p has Len(p) \div 2 + 1 bytes; a single byte < 0x80
\* (always the case for a one-byte HP: flags 0x00..0x3f) is its own encoding
HPRlp(p) == LET n == (Len(p) \div 2) + 1 IN IF n = 1 THEN 1 ELSE IF n < 56 THEN 1 + n ELSE 2 + n
ListLen(pl) == IF pl < 56 THEN 1 + pl ELSE IF pl < 256 THEN 2 + pl ELSE 3 + pl

\* ---------------------------------------------------------------- nodes
Blank == [t |-> "blank", p |-> <<>>, c |-> <<>>, v |-> NoVal, sz |-> 1]
IsHashed(n) == n.sz >= 32
RefLen(n) == IF n.t = "blank" THEN 1 ELSE IF n.sz < 32 THEN n.sz ELSE 33

MkLeaf(p, v) == [t |-> "leaf", p |-> p, c |-> <<>>, v |-> v,
                 sz |-> ListLen(HPRlp(p) + ValRlp(v))]
MkExt(p, c)  == [t |-> "ext", p |-> p, c |-> <<c>>, v |-> NoVal,
                 sz |-> ListLen(HPRlp(p) + RefLen(c))]
RECURSIVE SumRef(_, _)
SumRef(cs, i) == IF i > 16 THEN 0 ELSE RefLen(cs[i]) + SumRef(cs, i + 1)
MkBranch(cs, v) == [t |-> "branch", p |-> <<>>, c |-> cs, v |-> v,
                    sz |-> ListLen(SumRef(cs, 1) + ValRlp(v))]
EmptyCh == [i \in 1..16 |-> Blank]

\* ---------------------------------------------------------------- sequences
Drop(s, n) == SubSeq(s, n + 1, Len(s))
Take(s, n) == SubSeq(s, 1, n)
RECURSIVE CPL(_, _)
CPL(a, b) == IF a = <<>> \/ b = <<>> \/ Head(a) # Head(b) THEN 0
             ELSE 1 + CPL(Tail(a), Tail(b))
StartsWith(full, part) == Len(full) >= Len(part) /\ Take(full, Len(part)) = part
SetMin(S) == CHOOSE x \in S : \A y \in S : x <= y
SetMax(S) == CHOOSE x \in S : \A y \in S : x >= y
\* lexicographic order on nibble sequences (= byte-string order on keys)
RECURSIVE SeqLess(_, _)
SeqLess(a, b) == IF b = <<>> THEN FALSE
                 ELSE IF a = <<>> THEN TRUE
                 ELSE IF Head(a) < Head(b) THEN TRUE
                 ELSE IF Head(a) > Head(b) THEN FALSE
                 ELSE SeqLess(Tail(a), Tail(b))

\* ------------------------------------------------------------------------
\* DEFINITION: canonical trie of a map (Yellow Paper, Appendix D)
\* m : function from a finite set of nibble sequences to non-empty values
\* ------------------------------------------------------------------------
RECURSIVE Canon(_)
Canon(m) ==
  LET K == DOMAIN m IN
  IF K = {} THEN Blank
  ELSE IF Cardinality(K) = 1 THEN LET k == CHOOSE k \in K : TRUE IN MkLeaf(k, m[k])
  ELSE LET k0 == CHOOSE k \in K : TRUE
           cp == CHOOSE n \in 0..Len(k0) :
                   /\ \A k \in K : Len(k) >= n /\ Take(k, n) = Take(k0, n)
                   /\ ~ (n < Len(k0) /\ \A k \in K : Len(k) >= n + 1
                                                     /\ Take(k, n + 1) = Take(k0, n + 1))
       IN IF cp > 0
          THEN MkExt(Take(k0, cp),
                     Canon(TLCEval([k \in {Drop(x, cp) : x \in K} |-> m[Take(k0, cp) \o k]])))
          ELSE MkBranch([i \in 1..16 |->
                           LET Ki == {k \in K : k # <<>> /\ Head(k) = i - 1} IN
                           Canon(TLCEval([k \in {Tail(x) : x \in Ki} |-> m[<<i - 1>> \o k]]))],
                        IF <<>> \in K THEN m[<<>>] ELSE NoVal)

\* DEFINITION: value of key k in the trie denoted by the nested node n
RECURSIVE Lookup(_, _)
Lookup(n, k) ==
  CASE n.t = "blank" -> NoVal
    [] n.t = "leaf" -> IF k = n.p THEN n.v ELSE NoVal
    [] n.t = "ext" -> IF StartsWith(k, n.p) THEN Lookup(n.c[1], Drop(k, Len(n.p))) ELSE NoVal
    [] n.t = "branch" -> IF k = <<>> THEN n.v ELSE Lookup(n.c[Head(k) + 1], Tail(k))

\* all key/value pairs denoted by a nested node
RECURSIVE Pairs(_, _)
Pairs(n, pre) ==
  CASE n.t = "blank" -> {}
    [] n.t = "leaf" -> {<<pre \o n.p, n.v>>}
    [] n.t = "ext" -> Pairs(n.c[1], pre \o n.p)
    [] n.t = "branch" -> (IF n.v # NoVal THEN {<<pre, n.v>>} ELSE {})
                         \cup UNION {Pairs(n.c[i], pre \o <<i - 1>>) : i \in 1..16}

\* ---------------------------------------------------------------- effects
R(n) == IF IsHashed(n) THEN << <<"R", n>> >> ELSE <<>>
W(n) == IF IsHashed(n) THEN << <<"W", n>> >> ELSE <<>>
P(n) == IF IsHashed(n) THEN << <<"P", n>> >> ELSE <<>>
Res(n, e) == [n |-> n, e |-> e]

\* ------------------------------------------------------------------------
\* TRANSCRIPTION: insert (_set / _set_kv_node / _set_branch_node)
\* ------------------------------------------------------------------------
RECURSIVE SetN(_, _, _)
SetN(n, k, v) ==
  CASE n.t = "blank" -> Res(MkLeaf(k, v), <<>>)
    [] n.t = "branch" ->
         IF k = <<>> THEN Res(MkBranch(n.c, v), P(n))
         ELSE LET i == Head(k) + 1
                  sub == n.c[i]
                  r == SetN(sub, Tail(k), v)
              IN Res(MkBranch([n.c EXCEPT ![i] = r.n], n.v),
                     P(n) \o R(sub) \o r.e \o W(r.n))
    [] OTHER ->
         LET cp == CPL(n.p, k)
             common == Take(k, cp)
             curRem == Drop(n.p, cp)
             keyRem == Drop(k, cp)
             isExt == n.t = "ext"
             Wrap(nn, e) == IF cp > 0 THEN Res(MkExt(common, nn), e \o W(nn)) ELSE Res(nn, e)
         IN IF curRem = <<>> /\ keyRem = <<>> /\ ~isExt THEN Res(MkLeaf(n.p, v), P(n))
            ELSE IF curRem = <<>> /\ isExt
                 THEN LET sub == n.c[1]
                          r == SetN(sub, keyRem, v)
                      IN Wrap(r.n, P(n) \o R(sub) \o r.e)
            ELSE IF curRem = <<>>
                 THEN LET lf == MkLeaf(Tail(keyRem), v)
                          br == MkBranch([EmptyCh EXCEPT ![Head(keyRem) + 1] = lf], n.v)
                      IN Wrap(br, P(n) \o W(lf))
            ELSE LET direct == Len(curRem) = 1 /\ isExt
                     old == IF direct THEN n.c[1]
                            ELSE IF isExt THEN MkExt(Tail(curRem), n.c[1])
                            ELSE MkLeaf(Tail(curRem), n.v)
                     e1 == IF direct THEN <<>> ELSE W(old)
                     cs1 == [EmptyCh EXCEPT ![Head(curRem) + 1] = old]
                 IN IF keyRem # <<>>
                    THEN LET lf == MkLeaf(Tail(keyRem), v)
                         IN Wrap(MkBranch([cs1 EXCEPT ![Head(keyRem) + 1] = lf], NoVal),
                                 P(n) \o e1 \o W(lf))
                    ELSE Wrap(MkBranch(cs1, v), P(n) \o e1)

\* ------------------------------------------------------------------------
\* TRANSCRIPTION: delete (_delete / _delete_kv_node / _delete_branch_node /
\*                        _normalize_branch_node)
\* ------------------------------------------------------------------------
NonBlankIdx(cs) == {i \in 1..16 : cs[i].t # "blank"}
Normalize(br) ==
  LET idx == NonBlankIdx(br.c)
      cnt == Cardinality(idx) + (IF br.v # NoVal THEN 1 ELSE 0)
  IN IF cnt >= 2 THEN Res(br, <<>>)
     ELSE IF br.v # NoVal THEN Res(MkLeaf(<<>>, br.v), <<>>)
     ELSE LET i == CHOOSE i \in idx : TRUE
              sub == br.c[i]
          IN IF sub.t = "leaf" THEN Res(MkLeaf(<<i - 1>> \o sub.p, sub.v), R(sub) \o P(sub))
             ELSE IF sub.t = "ext"
                  THEN Res(MkExt(<<i - 1>> \o sub.p, sub.c[1]), R(sub) \o P(sub))
             ELSE Res(MkExt(<<i - 1>>, sub), R(sub))

RECURSIVE DelN(_, _)
DelN(n, k) ==
  CASE n.t = "blank" -> Res(Blank, <<>>)
    [] n.t = "branch" ->
         IF k = <<>> THEN LET r == Normalize(MkBranch(n.c, NoVal)) IN Res(r.n, P(n) \o r.e)
         ELSE LET i == Head(k) + 1
                  sub == n.c[i]
                  r == DelN(sub, Tail(k))
                  e == P(n) \o R(sub) \o r.e \o W(r.n)
              IN IF r.n = sub THEN Res(n, e)
                 ELSE IF r.n.t = "blank"
                      THEN LET z == Normalize(MkBranch([n.c EXCEPT ![i] = Blank], n.v))
                           IN Res(z.n, e \o z.e)
                      ELSE Res(MkBranch([n.c EXCEPT ![i] = r.n], n.v), e)
    [] n.t = "leaf" -> IF k = n.p THEN Res(Blank, P(n)) ELSE Res(n, P(n))
    [] n.t = "ext" ->
         IF ~StartsWith(k, n.p) THEN Res(n, P(n))
         ELSE LET sub == n.c[1]
                  r == DelN(sub, Drop(k, Len(n.p)))
                  e == P(n) \o R(sub) \o r.e \o W(r.n)
              IN IF r.n = sub THEN Res(n, e)
                 ELSE IF r.n.t = "blank" THEN Res(Blank, e)
                 ELSE IF r.n.t = "leaf" THEN Res(MkLeaf(n.p \o r.n.p, r.n.v), e \o P(r.n))
                 ELSE IF r.n.t = "ext" THEN Res(MkExt(n.p \o r.n.p, r.n.c[1]), e \o P(r.n))
                 ELSE Res(MkExt(n.p, r.n), e)

\* set(k, b'') is routed to the delete path (hexary.py:341)
OpRes(r0, k, v) == IF v = NoVal THEN DelN(r0, k) ELSE SetN(r0, k, v)
\* the root is always fetched from the database by hash, whatever its size
RootR(r0) == IF r0.t = "blank" THEN <<>> ELSE << <<"R", r0>> >>

\* ------------------------------------------------------------------------
\* reachable node sets and reference counts
\* ------------------------------------------------------------------------
RECURSIVE HashedSub(_)
HashedSub(n) ==
  (IF IsHashed(n) THEN {n} ELSE {}) \cup
  (CASE n.t = "ext" -> HashedSub(n.c[1])
     [] n.t = "branch" -> UNION {HashedSub(n.c[i]) : i \in 1..16}
     [] OTHER -> {})
\* DEFINITION: what a database must hold for root r to be fully readable, and
\* nothing else: the root under its own hash plus every hashed proper subnode
Stored(r) == IF r.t = "blank" THEN {} ELSE {r} \cup HashedSub(r)

Cnt(f, n) == IF n \in DOMAIN f THEN f[n] ELSE 0
NormBag(f) == [n \in {x \in DOMAIN f : f[x] # 0} |-> f[n]]
EmptyBag == [n \in {} |-> 0]
BagAdd(f, g) == [n \in DOMAIN f \cup DOMAIN g |-> Cnt(f, n) + Cnt(g, n)]
\* DEFINITION: number of referencing slots of every stored node (the root once)
RECURSIVE RefsBelow(_)
RECURSIVE BagSumSeq(_, _)
BagSumSeq(cs, i) == IF i > Len(cs) THEN EmptyBag
                    ELSE BagAdd(RefsBelow(cs[i]), BagSumSeq(cs, i + 1))
\* references found in the slots of n's children, n itself not counted
RefsBelow(n) == IF n.t = "blank" THEN EmptyBag
                ELSE BagAdd(IF IsHashed(n) THEN [x \in {n} |-> 1] ELSE EmptyBag,
                            BagSumSeq(n.c, 1))
TrueRc(r) == IF r.t = "blank" THEN EmptyBag
             ELSE BagAdd([x \in {r} |-> 1], BagSumSeq(r.c, 1))

\* TRANSCRIPTION of regenerate_ref_count: does not descend into embedded nodes
RECURSIVE Regen(_)
RECURSIVE RegenKids(_, _)
RegenKids(n, I) == IF I = {} THEN EmptyBag
                   ELSE LET i == CHOOSE i \in I : TRUE
                        IN BagAdd(Regen(n.c[i]), RegenKids(n, I \ {i}))
Regen(n) == BagAdd([x \in {n} |-> 1],
                   RegenKids(n, {i \in 1..Len(n.c) : IsHashed(n.c[i])}))
RegenRc(r) == IF r.t = "blank" THEN EmptyBag ELSE Regen(r)

\* ------------------------------------------------------------------------
\* TRANSCRIPTION: traversal (_traverse / _traverse_from / _traverse_extension)
\* h = [all |-> BOOLEAN, s |-> set of readable nodes]
\* ------------------------------------------------------------------------
Can(h, n) == h.all \/ n \in h.s
Complete == [all |-> TRUE, s |-> {}]
Only(S) == [all |-> FALSE, s |-> S]

\* outcome of a traversal: kind "node" | "partial" | "missing"; n the node reached
\* (the enclosing leaf/extension for "partial", the unreadable node for "missing");
\* trav the nibbles consumed; tail what is left of the path; hops / reads the number
\* of child hops made and of database reads among them (hashed children)
Out(kind, n, trav, tail, c) == [kind |-> kind, n |-> n, trav |-> trav, tail |-> tail,
                                hops |-> c[1], reads |-> c[2]]
RECURSIVE Trav(_, _, _, _, _)
Hop(child, rem, trav, h, c) ==
  LET c2 == <<c[1] + 1, c[2] + (IF IsHashed(child) THEN 1 ELSE 0)>> IN
  IF IsHashed(child) /\ ~Can(h, child) THEN Out("missing", child, trav, rem, c2)
  ELSE Trav(child, rem, trav, h, c2)
Trav(n, rem, trav, h, c) ==
  IF rem = <<>> THEN Out("node", n, trav, <<>>, c)
  ELSE CASE n.t = "blank" -> Out("node", Blank, trav, <<>>, c)
         [] n.t = "leaf" -> IF StartsWith(n.p, rem) THEN Out("partial", n, trav, rem, c)
                            ELSE Out("node", Blank, trav, <<>>, c)
         [] n.t = "ext" -> IF StartsWith(rem, n.p)
                           THEN Hop(n.c[1], Drop(rem, Len(n.p)), trav \o n.p, h, c)
                           ELSE IF StartsWith(n.p, rem) THEN Out("partial", n, trav, rem, c)
                           ELSE Out("node", Blank, trav, <<>>, c)
         [] n.t = "branch" -> Hop(n.c[Head(rem) + 1], Tail(rem), trav \o <<Head(rem)>>, h, c)

\* traverse(path) on the trie with root r: the root itself is read first
TravRoot(r, path, h) ==
  IF r.t # "blank" /\ ~Can(h, r) THEN Out("missing", r, <<>>, path, <<0, 1>>)
  ELSE Trav(r, path, <<>>, h, <<0, IF r.t = "blank" THEN 0 ELSE 1>>)
\* traverse_from(node, seg): the node body is in hand, nothing is read for it
TravFrom(n, seg, h) == Trav(n, seg, <<>>, h, <<0, 0>>)

\* simulated node of a partial traversal (exceptions.py _make_simulated_node)
Sim(o) == IF o.n.t = "leaf" THEN MkLeaf(Drop(o.n.p, Len(o.tail)), o.n.v)
          ELSE MkExt(Drop(o.n.p, Len(o.tail)), o.n.c[1])

\* annotate_node
SubSegs(n) == CASE n.t = "ext" -> <<n.p>>
                [] n.t = "branch" ->
                     LET RECURSIVE F(_)
                         F(i) == IF i > 16 THEN <<>>
                                 ELSE (IF n.c[i].t # "blank" THEN << <<i - 1>> >> ELSE <<>>) \o F(TLCEval(i + 1))
                     IN F(1)
                [] OTHER -> <<>>
NodeValue(n) == IF n.t \in {"leaf", "branch"} THEN n.v ELSE NoVal
Suffix(n) == IF n.t = "leaf" THEN n.p ELSE <<>>
Annot(n) == [t |-> n.t, subs |-> SubSegs(n), v |-> NodeValue(n), suffix |-> Suffix(n)]

\* TRANSCRIPTION of get/_get; bugs is the set of named deviations kept from
\* the pinned tree ("D1": a key ending inside an extension raises)
GOut(kind, v, n, prefix) == [kind |-> kind, v |-> v, n |-> n, prefix |-> prefix]
GVal(v) == GOut("val", v, Blank, <<>>)
GetOut(r, k, h, bugs) ==
  LET o == TravRoot(r, k, h) IN
  IF o.kind = "missing" THEN GOut("missing", NoVal, o.n, o.trav)
  ELSE IF o.kind = "partial"
       THEN IF o.n.t = "leaf" THEN GVal(IF o.tail = o.n.p THEN o.n.v ELSE NoVal)
            ELSE IF "D1" \in bugs THEN GOut("verr", NoVal, Blank, <<>>) ELSE GVal(NoVal)
  ELSE CASE o.n.t = "blank" -> GVal(NoVal)
         [] o.n.t = "leaf" -> GVal(IF o.n.p = <<>> THEN o.n.v ELSE NoVal)
         [] o.n.t = "ext" -> GVal(NoVal)
         [] o.n.t = "branch" -> GVal(o.n.v)

\* ------------------------------------------------------------------------
\* proofs
\* ------------------------------------------------------------------------
\* TRANSCRIPTION of _get_proof (nodes root-to-leaf, embedded ones included)
RECURSIVE Proof(_, _)
Proof(n, k) ==
  CASE n.t = "blank" -> <<>>
    [] n.t = "leaf" -> <<n>>
    [] n.t = "ext" -> IF StartsWith(k, n.p) THEN <<n>> \o Proof(n.c[1], Drop(k, Len(n.p)))
                      ELSE <<n>>
    [] n.t = "branch" -> IF k = <<>> THEN <<n>>
                         ELSE <<n>> \o Proof(n.c[Head(k) + 1], Tail(k))
\* DEFINITION: every node (embedded or hashed) on the path of k
RECURSIVE PathNodes(_, _)
PathNodes(n, k) ==
  CASE n.t = "blank" -> {}
    [] n.t = "leaf" -> {n}
    [] n.t = "ext" -> {n} \cup (IF StartsWith(k, n.p) THEN PathNodes(n.c[1], Drop(k, Len(n.p)))
                                ELSE {})
    [] n.t = "branch" -> {n} \cup (IF k = <<>> THEN {}
                                   ELSE PathNodes(n.c[Head(k) + 1], Tail(k)))
\* hashed nodes whose bodies a verifier must be given to resolve k from root r
NeededNodes(r, k) == IF r.t = "blank" THEN {}
                     ELSE {r} \cup {x \in PathNodes(r, k) : IsHashed(x)}
\* get_from_proof(root, k, P): outcome is a value or "bad" (BadTrieProof)
VerifyProof(r, k, Pset, bugs) ==
  LET g == GetOut(r, k, Only(Pset), bugs) IN
  IF g.kind = "missing" THEN [kind |-> "bad", v |-> NoVal] ELSE [kind |-> g.kind, v |-> g.v]

\* ------------------------------------------------------------------------
\* iteration (trie/iter.py)
\* ------------------------------------------------------------------------
NoneK == [some |-> FALSE, k |-> <<>>]
SomeK(k) == [some |-> TRUE, k |-> k]
\* DEFINITION: the smallest stored key strictly greater than q (byte-string order on keys
\* is the lexicographic order on their nibble sequences), the sorted key sequence
SuccOf(K, q) == LET G == {k \in K : SeqLess(q, k)} IN
                IF G = {} THEN NoneK ELSE SomeK(CHOOSE k \in G : \A x \in G : x = k \/ SeqLess(k, x))
MinKey(K) == IF K = {} THEN NoneK ELSE SomeK(CHOOSE k \in K : \A x \in K : x = k \/ SeqLess(k, x))
RECURSIVE SortedKeys(_)
SortedKeys(K) == IF K = {} THEN <<>>
                 ELSE LET m == MinKey(K).k IN <<m>> \o SortedKeys(K \ {m})
\* the child reached by following one whole sub-segment of an annotated node
\* (TLCEval: TLC passes operator arguments unevaluated and re-evaluates them at every use;
\* forcing them at recursion sites keeps the recursions linear)
ChildVia(n, s) == TLCEval(TravFrom(n, s, Complete).n)
\* TRANSCRIPTION of NodeIterator._get_next_key
RECURSIVE NextKeyIn(_, _)
NextKeyIn(n, trav) ==
  IF NodeValue(n) # NoVal THEN SomeK(trav \o Suffix(n))
  ELSE IF SubSegs(n) = <<>> THEN NoneK
  ELSE LET s == SubSegs(n)[1] IN NextKeyIn(ChildVia(n, s), TLCEval(trav \o s))
\* TRANSCRIPTION of NodeIterator._get_key_after (the loop over sub_segments from index i)
RECURSIVE KeyAfterFrom(_, _, _, _)
KeyAfterFrom(n, key, trav, i) ==
  IF i > Len(SubSegs(n))
  THEN IF SeqLess(key, Suffix(n)) THEN SomeK(trav \o Suffix(n)) ELSE NoneK
  ELSE LET s == SubSegs(n)[i]
           keyHead == Take(key, IF Len(key) < Len(s) THEN Len(key) ELSE Len(s))
       IN IF SeqLess(s, keyHead) THEN KeyAfterFrom(n, key, trav, i + 1)
          ELSE LET child == ChildVia(n, s)
                   cp == CPL(key, s)
               IN IF cp = Len(s)
                  THEN LET r == TLCEval(KeyAfterFrom(child, TLCEval(Drop(key, cp)), TLCEval(trav \o s), 1)) IN
                       IF r.some THEN r ELSE KeyAfterFrom(n, key, trav, i + 1)
                  ELSE NextKeyIn(child, trav \o s)
KeyAfter(r, key) == KeyAfterFrom(r, key, <<>>, 1)
\* DEFINITION: the nodes of a trie in pre-order (parents first, children left to right)
RECURSIVE Preorder(_, _)
RECURSIVE PreKids(_, _, _)
PreKids(n, pre, i) == IF i > Len(SubSegs(n)) THEN <<>>
                      ELSE LET s == SubSegs(n)[i] IN
                           Preorder(ChildVia(n, s), TLCEval(pre \o s)) \o PreKids(n, pre, i + 1)
Preorder(n, pre) == << [p |-> pre, n |-> n] >> \o PreKids(n, pre, 1)

\* ------------------------------------------------------------------------
\* DEFINITION (C08), from the key set alone: what a traversal of path p must
\* report on the trie holding the map m.  Independent of Canon and of Trav.
\* ------------------------------------------------------------------------
KeysUnder(m, p) == {k \in DOMAIN m : StartsWith(k, p)}
LCPSet(S) == LET k0 == CHOOSE k \in S : TRUE
                 n0 == CHOOSE n \in 0..Len(k0) :
                         /\ \A k \in S : Len(k) >= n /\ Take(k, n) = Take(k0, n)
                         /\ ~ (n < Len(k0) /\ \A k \in S : Len(k) >= n + 1
                                                            /\ Take(k, n + 1) = Take(k0, n + 1))
             IN Take(k0, n0)
\* description of a traversal result; the fields of HexaryTrieNode / TraversedPartialPath
Desc(kind, t, subs, v, suffix, trav, tail, st, ssubs, ssuffix) ==
  [kind |-> kind, t |-> t, subs |-> subs, v |-> v, suffix |-> suffix, trav |-> trav,
   tail |-> tail, st |-> st, ssubs |-> ssubs, ssuffix |-> ssuffix]
DBlank == Desc("node", "blank", <<>>, NoVal, <<>>, <<>>, <<>>, "", <<>>, <<>>)
RECURSIVE NibSubs(_, _, _)
NibSubs(m, p, i) == IF i > 15 THEN <<>>
                    ELSE (IF KeysUnder(m, p \o <<i>>) # {} THEN << <<i>> >> ELSE <<>>)
                         \o NibSubs(m, p, i + 1)
NodeAt(m, p) ==
  LET S == KeysUnder(m, p) IN
  IF S = {} THEN DBlank
  ELSE LET BranchAt(b) == LET Sb == KeysUnder(m, b) IN Cardinality(Sb) >= 2 /\ LCPSet(Sb) = b
           Bs == {n \in 0..(Len(p) - 1) : BranchAt(Take(p, n))}
           s == IF Bs = {} THEN 0 ELSE SetMax(Bs) + 1      \* where the enclosing node starts
           L == LCPSet(S)
       IN IF Cardinality(S) >= 2 /\ L = p
          THEN Desc("node", "branch", NibSubs(m, p, 0), IF p \in DOMAIN m THEN m[p] ELSE NoVal,
                    <<>>, <<>>, <<>>, "", <<>>, <<>>)
          ELSE IF Cardinality(S) = 1
          THEN LET k == CHOOSE k \in S : TRUE IN
               IF Len(p) = s THEN Desc("node", "leaf", <<>>, m[k], Drop(k, s), <<>>, <<>>, "", <<>>, <<>>)
               ELSE Desc("partial", "leaf", <<>>, m[k], Drop(k, s), Take(p, s), Drop(p, s),
                         "leaf", <<>>, Drop(k, Len(p)))
          ELSE IF Len(p) = s THEN Desc("node", "ext", << Drop(L, s) >>, NoVal, <<>>, <<>>, <<>>, "", <<>>, <<>>)
               ELSE Desc("partial", "ext", << Drop(L, s) >>, NoVal, <<>>, Take(p, s), Drop(p, s),
                         "ext", << Drop(L, Len(p)) >>, <<>>)
\* the same description computed from an outcome of the transcription
Describe(o) ==
  IF o.kind = "missing" THEN Desc("missing", o.n.t, <<>>, NoVal, <<>>, o.trav, <<>>, "", <<>>, <<>>)
  ELSE LET a == Annot(o.n) IN
       IF o.kind = "node" THEN Desc("node", a.t, a.subs, a.v, a.suffix, <<>>, <<>>, "", <<>>, <<>>)
       ELSE LET sm == Annot(Sim(o)) IN
            Desc("partial", a.t, a.subs, a.v, a.suffix, o.trav, o.tail, sm.t, sm.subs, sm.suffix)
\* paths at which traversals are compared: every prefix of every stored key, each
\* with one deviating nibble appended, stored keys extended by one and two nibbles
PathsOf(K, dev) ==
  LET pre == {<<>>} \cup UNION {{Take(k, n) : n \in 0..Len(k)} : k \in K}
  IN pre \cup {p \o <<x>> : p \in pre, x \in dev} \cup {k \o <<x, y>> : k \in K, x \in {0}, y \in {0, 1}}

\* ------------------------------------------------------------------------
\* compact JSON forms exchanged with the harness
\* ------------------------------------------------------------------------
RECURSIVE J(_)
J(n) == CASE n.t = "blank" -> <<>>
          [] n.t = "leaf" -> <<"L", n.p, n.v.tag, n.v.len, n.sz>>
          [] n.t = "ext" -> <<"E", n.p, J(n.c[1]), n.sz>>
          [] n.t = "branch" -> <<"B", [i \in 1..16 |-> J(n.c[i])], n.v.tag, n.v.len, n.sz>>
JV(v) == <<v.tag, v.len>>
JSet(S) == {J(n) : n \in S}
JBag(f) == {<<J(n), f[n]>> : n \in DOMAIN f}

\* inverse: rebuild a spec node from the compact form logged by the harness
\* (the logged sz / hashed flags are compared separately)
RECURSIVE Inflate(_)
Inflate(j) == IF j = <<>> THEN Blank
              ELSE CASE j[1] = "L" -> MkLeaf(j[2], [tag |-> j[3], len |-> j[4]])
                     [] j[1] = "E" -> MkExt(j[2], Inflate(j[3]))
                     [] j[1] = "B" -> MkBranch([i \in 1..16 |-> Inflate(j[2][i])],
                                               [tag |-> j[3], len |-> j[4]])
\* the real encoder's length of every node of the logged structure equals sz
RECURSIVE SizesOK(_)
SizesOK(j) == IF j = <<>> THEN TRUE
              ELSE CASE j[1] = "L" -> Inflate(j).sz = j[5]
                     [] j[1] = "E" -> Inflate(j).sz = j[4] /\ SizesOK(j[3])
                     [] j[1] = "B" -> Inflate(j).sz = j[5] /\ \A i \in 1..16 : SizesOK(j[2][i])
=============================================================================
