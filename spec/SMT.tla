-------------------------------- MODULE SMT --------------------------------
(***************************************************************************)
(* trie.smt.SparseMerkleTree and SparseMerkleProof.                         *)
(* The full tree of depth 8*key_size is kept in a collapsed normal form:    *)
(*     Def(d)   the all-default subtree of height d                         *)
(*     Val(v)   a leaf holding v           (Val(default) = Def(0))          *)
(*     Pair(l,r,d)                        (Pair(Def(d-1),Def(d-1)) = Def(d)) *)
(* under which "hash = identity" is sound (two subtrees are equal iff their  *)
(* Merkle hashes are, modulo collisions) and a depth-256 tree with a few     *)
(* keys stays small.  Keys are bit sequences, most significant bit first.    *)
(*   DEFINITION   : FullTree(contents)  (recursive halving of the key space) *)
(*   TRANSCRIPTION: Sibs (_get), Upd (set: rebuild leaf-to-root from the     *)
(*                  sibling list), CalcRoot, the proof tracker's update      *)
(***************************************************************************)
EXTENDS Naturals, Sequences, FiniteSets, TLC
CONSTANTS Depth, Keys, Vals, Defaults, MaxOps, Truncations
VARIABLES default, tree, contents, tracking, tracked, pvalue, pbranch, ops, last, hist
vars == <<default, tree, contents, tracking, tracked, pvalue, pbranch, ops, last, hist>>

Blank == [tag |-> 0, len |-> 0]

DefN(dflt, d) == [t |-> "def", d |-> d, l |-> <<>>, r |-> <<>>, v |-> dflt]
ValN(dflt, v) == IF v = dflt THEN DefN(dflt, 0) ELSE [t |-> "val", d |-> 0, l |-> <<>>, r |-> <<>>, v |-> v]
PairN(dflt, a, b, d) == IF a = DefN(dflt, d - 1) /\ b = DefN(dflt, d - 1) THEN DefN(dflt, d)
                        ELSE [t |-> "pair", d |-> d, l |-> <<a>>, r |-> <<b>>, v |-> dflt]
Def(d) == DefN(default, d)
Val(v) == ValN(default, v)
Pair(a, b, d) == PairN(default, a, b, d)
Left(n) == IF n.t = "def" THEN DefN(n.v, n.d - 1) ELSE n.l[1]
Right(n) == IF n.t = "def" THEN DefN(n.v, n.d - 1) ELSE n.r[1]

\* TRANSCRIPTION of _get: descend MSB first collecting the siblings root -> leaf
\* (recursions run over an index into the key and force their arguments with TLCEval:
\* TLC passes operator arguments unevaluated, which makes naive structural recursion
\* over Tail(k) exponential in the depth)
Child(n, bit) == IF bit = 1 THEN Right(n) ELSE Left(n)
Other(n, bit) == IF bit = 1 THEN Left(n) ELSE Right(n)
RECURSIVE SibsFrom(_, _, _, _)
SibsFrom(n, k, i, acc) == IF i > Len(k) THEN acc
                          ELSE SibsFrom(TLCEval(Child(n, k[i])), k, TLCEval(i + 1), TLCEval(Append(acc, Other(n, k[i]))))
Sibs(n, k) == SibsFrom(n, k, 1, <<>>)
RECURSIVE LeafFrom(_, _, _)
LeafFrom(n, k, i) == IF i > Len(k) THEN n ELSE LeafFrom(TLCEval(Child(n, k[i])), k, TLCEval(i + 1))
LeafOf(n, k) == LeafFrom(n, k, 1)
LeafVal(n) == n.v       \* a "def" leaf holds the default
\* TRANSCRIPTION of set / calc_root: fold the sibling list leaf -> root
\* returns the root and the nodes on the path below the root, root -> leaf
\* (tail recursive with an accumulator: TLC re-evaluates a LET-bound recursive call at every use)
RECURSIVE Fold(_, _, _, _, _)
Fold(node, k, sibs, h, acc) ==
  IF h = Len(k) THEN [root |-> node, upd |-> acc]
  ELSE LET i == Len(k) - h
           parent == IF k[i] = 1 THEN Pair(sibs[i], node, h + 1) ELSE Pair(node, sibs[i], h + 1)
       IN Fold(TLCEval(parent), k, sibs, h + 1, TLCEval(<<node>> \o acc))
Upd(n, k, v) == Fold(Val(v), k, TLCEval(Sibs(n, k)), 0, <<>>)
CalcRoot(k, v, branch) == Fold(Val(v), k, branch, 0, <<>>).root

\* DEFINITION: the full tree of a map (keys not mentioned hold the default)
RECURSIVE FullTree(_, _, _)
FullTree(c, prefix, h) ==
  IF \A k \in Keys : ~(SubSeq(k, 1, Len(prefix)) = prefix /\ c[k] # default) THEN Def(h)
  ELSE IF h = 0 THEN Val(c[prefix])
  ELSE Pair(TLCEval(FullTree(c, prefix \o <<0>>, h - 1)), TLCEval(FullTree(c, prefix \o <<1>>, h - 1)), h)
\* DEFINITION: the nodes on the path of k below the root, root -> leaf
RECURSIVE PathFrom(_, _, _, _)
PathFrom(n, k, i, acc) == IF i > Len(k) THEN acc
                          ELSE LET c == TLCEval(Child(n, k[i])) IN PathFrom(c, k, TLCEval(i + 1), TLCEval(Append(acc, c)))
PathBelow(n, k) == PathFrom(n, k, 1, <<>>)

\* JSON forms
RECURSIVE JT(_)
JT(n) == CASE n.t = "def" -> <<"D", n.d>>
           [] n.t = "val" -> <<"V", n.v.tag, n.v.len>>
           [] n.t = "pair" -> <<"P", JT(n.l[1]), JT(n.r[1])>>
JV(v) == <<v.tag, v.len>>
JSeq(s) == [i \in 1..Len(s) |-> JT(s[i])]

Log(rec) == hist' = Append(hist, rec) /\ last' = rec
Init == /\ default \in Defaults
        /\ tree = DefN(default, Depth) /\ contents = [k \in Keys |-> default]
        /\ tracking = FALSE /\ tracked = <<>> /\ pvalue = Blank /\ pbranch = <<>>
        /\ ops = 0
        /\ last = [a |-> "init"] /\ hist = << [a |-> "init", depth |-> Depth, dflt |-> JV(default)] >>

FirstDiff(a, b) == CHOOSE i \in 1..Len(a) : a[i] # b[i] /\ \A j \in 1..(i - 1) : a[j] = b[j]
\* the proof object is fed (key, value, first m hashes of the returned list); if that is
\* refused as too short it is fed the whole list next (so that it can stay in sync)
Stream(k, v, upd, m) ==
  IF ~tracking THEN UNCHANGED <<pvalue, pbranch>>
  ELSE IF k = tracked THEN pvalue' = v /\ pbranch' = pbranch
  ELSE LET bp == FirstDiff(k, tracked) IN        \* 1-based index of the first differing bit
       pvalue' = pvalue /\ pbranch' = [pbranch EXCEPT ![bp] = upd[bp]]
Refused(k, m) == tracking /\ k # tracked /\ m < FirstDiff(k, tracked)

\* tree.set(k, v) / tree[k] = v  (v may be blank or the default), then streamed with length m
Set(k, v, m) ==
  /\ ops < MaxOps
  /\ LET u == TLCEval(Upd(tree, k, v)) IN
     /\ tree' = u.root
     /\ contents' = [contents EXCEPT ![k] = v]
     /\ Stream(k, v, u.upd, m)
     /\ Log([a |-> "set", k |-> k, v |-> JV(v), upd |-> JSeq(u.upd), m |-> m, short |-> Refused(k, m)])
  /\ ops' = ops + 1 /\ UNCHANGED <<default, tracking, tracked>>
\* tree.delete(k) / del tree[k]: writes the configured default
Delete(k, m) ==
  /\ ops < MaxOps
  /\ LET u == TLCEval(Upd(tree, k, default)) IN
     /\ tree' = u.root
     /\ contents' = [contents EXCEPT ![k] = default]
     /\ Stream(k, default, u.upd, m)
     /\ Log([a |-> "delete", k |-> k, v |-> JV(default), upd |-> JSeq(u.upd), m |-> m, short |-> Refused(k, m)])
  /\ ops' = ops + 1 /\ UNCHANGED <<default, tracking, tracked>>
\* SparseMerkleProof(k, tree.get(k), tree.branch(k)) for a readable key
Track(k) ==
  /\ ~tracking /\ LeafVal(LeafOf(tree, k)) # Blank
  /\ tracking' = TRUE /\ tracked' = k
  /\ pvalue' = LeafVal(LeafOf(tree, k)) /\ pbranch' = Sibs(tree, k)
  /\ Log([a |-> "track", k |-> k])
  /\ UNCHANGED <<default, tree, contents, ops>>

\* C18: ill-formed calls and the exception each must be refused with; nothing changes
SmtRejects ==
  { [entry |-> "get", arg |-> "key", kind |-> "notbytes", exc |-> "ValidationError", needs |-> "any"],
    [entry |-> "get", arg |-> "key", kind |-> "short", exc |-> "ValidationError", needs |-> "any"],
    [entry |-> "get", arg |-> "key", kind |-> "long", exc |-> "ValidationError", needs |-> "any"],
    [entry |-> "get", arg |-> "key", kind |-> "empty", exc |-> "ValidationError", needs |-> "any"],
    [entry |-> "exists", arg |-> "key", kind |-> "notbytes", exc |-> "ValidationError", needs |-> "any"],
    [entry |-> "exists", arg |-> "key", kind |-> "short", exc |-> "ValidationError", needs |-> "any"],
    [entry |-> "exists", arg |-> "key", kind |-> "long", exc |-> "ValidationError", needs |-> "any"],
    [entry |-> "exists", arg |-> "key", kind |-> "empty", exc |-> "ValidationError", needs |-> "any"],
    [entry |-> "getitem", arg |-> "key", kind |-> "notbytes", exc |-> "ValidationError", needs |-> "any"],
    [entry |-> "getitem", arg |-> "key", kind |-> "short", exc |-> "ValidationError", needs |-> "any"],
    [entry |-> "getitem", arg |-> "key", kind |-> "long", exc |-> "ValidationError", needs |-> "any"],
    [entry |-> "getitem", arg |-> "key", kind |-> "empty", exc |-> "ValidationError", needs |-> "any"],
    [entry |-> "contains", arg |-> "key", kind |-> "notbytes", exc |-> "ValidationError", needs |-> "any"],
    [entry |-> "contains", arg |-> "key", kind |-> "short", exc |-> "ValidationError", needs |-> "any"],
    [entry |-> "contains", arg |-> "key", kind |-> "long", exc |-> "ValidationError", needs |-> "any"],
    [entry |-> "contains", arg |-> "key", kind |-> "empty", exc |-> "ValidationError", needs |-> "any"],
    [entry |-> "branch", arg |-> "key", kind |-> "notbytes", exc |-> "ValidationError", needs |-> "any"],
    [entry |-> "branch", arg |-> "key", kind |-> "short", exc |-> "ValidationError", needs |-> "any"],
    [entry |-> "branch", arg |-> "key", kind |-> "long", exc |-> "ValidationError", needs |-> "any"],
    [entry |-> "branch", arg |-> "key", kind |-> "empty", exc |-> "ValidationError", needs |-> "any"],
    [entry |-> "delete", arg |-> "key", kind |-> "notbytes", exc |-> "ValidationError", needs |-> "any"],
    [entry |-> "delete", arg |-> "key", kind |-> "short", exc |-> "ValidationError", needs |-> "any"],
    [entry |-> "delete", arg |-> "key", kind |-> "long", exc |-> "ValidationError", needs |-> "any"],
    [entry |-> "delete", arg |-> "key", kind |-> "empty", exc |-> "ValidationError", needs |-> "any"],
    [entry |-> "delitem", arg |-> "key", kind |-> "notbytes", exc |-> "ValidationError", needs |-> "any"],
    [entry |-> "delitem", arg |-> "key", kind |-> "short", exc |-> "ValidationError", needs |-> "any"],
    [entry |-> "delitem", arg |-> "key", kind |-> "long", exc |-> "ValidationError", needs |-> "any"],
    [entry |-> "delitem", arg |-> "key", kind |-> "empty", exc |-> "ValidationError", needs |-> "any"],
    [entry |-> "set", arg |-> "key", kind |-> "notbytes", exc |-> "ValidationError", needs |-> "any"],
    [entry |-> "set", arg |-> "key", kind |-> "short", exc |-> "ValidationError", needs |-> "any"],
    [entry |-> "set", arg |-> "key", kind |-> "long", exc |-> "ValidationError", needs |-> "any"],
    [entry |-> "set", arg |-> "key", kind |-> "empty", exc |-> "ValidationError", needs |-> "any"],
    [entry |-> "setitem", arg |-> "key", kind |-> "notbytes", exc |-> "ValidationError", needs |-> "any"],
    [entry |-> "setitem", arg |-> "key", kind |-> "short", exc |-> "ValidationError", needs |-> "any"],
    [entry |-> "setitem", arg |-> "key", kind |-> "long", exc |-> "ValidationError", needs |-> "any"],
    [entry |-> "setitem", arg |-> "key", kind |-> "empty", exc |-> "ValidationError", needs |-> "any"],
    [entry |-> "set", arg |-> "value", kind |-> "notbytes", exc |-> "ValidationError", needs |-> "any"],
    [entry |-> "setitem", arg |-> "value", kind |-> "notbytes", exc |-> "ValidationError", needs |-> "any"],
    [entry |-> "constructor", arg |-> "key_size", kind |-> "zero", exc |-> "ValidationError", needs |-> "any"],
    [entry |-> "constructor", arg |-> "key_size", kind |-> "toolarge", exc |-> "ValidationError", needs |-> "any"],
    [entry |-> "from_db", arg |-> "root", kind |-> "notbytes", exc |-> "ValidationError", needs |-> "any"],
    [entry |-> "from_db", arg |-> "root", kind |-> "short", exc |-> "ValidationError", needs |-> "any"],
    [entry |-> "from_db", arg |-> "root", kind |-> "long", exc |-> "ValidationError", needs |-> "any"],
    \* (a key size outside 1..32 is refused by every way of making a tree, re-opening included)
    [entry |-> "from_db", arg |-> "key_size", kind |-> "zero", exc |-> "ValidationError", needs |-> "any"],
    [entry |-> "from_db", arg |-> "key_size", kind |-> "toolarge", exc |-> "ValidationError", needs |-> "any"],
    [entry |-> "from_db", arg |-> "key_size", kind |-> "negative", exc |-> "ValidationError", needs |-> "any"],
    [entry |-> "constructor", arg |-> "key_size", kind |-> "negative", exc |-> "ValidationError", needs |-> "any"],
    [entry |-> "calc_root", arg |-> "key", kind |-> "notbytes", exc |-> "ValidationError", needs |-> "any"],
    [entry |-> "calc_root", arg |-> "value", kind |-> "notbytes", exc |-> "ValidationError", needs |-> "any"],
    [entry |-> "calc_root", arg |-> "branch", kind |-> "short", exc |-> "ValidationError", needs |-> "any"],
    [entry |-> "calc_root", arg |-> "branch", kind |-> "long", exc |-> "ValidationError", needs |-> "any"],
    [entry |-> "proof_constructor", arg |-> "key", kind |-> "notbytes", exc |-> "ValidationError", needs |-> "any"],
    [entry |-> "proof_constructor", arg |-> "value", kind |-> "notbytes", exc |-> "ValidationError", needs |-> "any"],
    [entry |-> "proof_constructor", arg |-> "branch", kind |-> "short", exc |-> "ValidationError", needs |-> "any"],
    [entry |-> "proof_constructor", arg |-> "branch", kind |-> "long", exc |-> "ValidationError", needs |-> "any"],
    [entry |-> "proof_update", arg |-> "key", kind |-> "notbytes", exc |-> "ValidationError", needs |-> "tracking"],
    [entry |-> "proof_update", arg |-> "key", kind |-> "short", exc |-> "ValidationError", needs |-> "tracking"],
    [entry |-> "proof_update", arg |-> "key", kind |-> "long", exc |-> "ValidationError", needs |-> "tracking"] }
Rejected(e) == /\ (e.needs = "tracking" => tracking)
               /\ Log([a |-> "reject", entry |-> e.entry, arg |-> e.arg, kind |-> e.kind, exc |-> e.exc])
               /\ UNCHANGED <<default, tree, contents, tracking, tracked, pvalue, pbranch, ops>>
NextR == \E e \in SmtRejects : Rejected(e)
Next == \/ \E k \in Keys : \E m \in Truncations :
           (\E v \in Vals \cup {Blank, default} : Set(k, v, m)) \/ Delete(k, m)
        \/ \E k \in Keys : Track(k)
Spec == Init /\ [][Next]_vars
SpecR == Init /\ [][Next \/ NextR]_vars

---------------------------------------------------------------------------
\* observables
GetOut(k) == LET v == LeafVal(LeafOf(tree, k)) IN IF v = Blank THEN [kind |-> "KeyError", v |-> Blank]
                                                  ELSE [kind |-> "val", v |-> v]
\* PROPERTIES (C14)
IsFull == tree = FullTree(contents, <<>>, Depth)
GetMatches == \A k \in Keys : LeafVal(LeafOf(tree, k)) = contents[k]
ClearedIsInitial == (\A k \in Keys : contents[k] = default) => tree = DefN(default, Depth)
BranchVerifies == \A k \in Keys : CalcRoot(k, contents[k], Sibs(tree, k)) = tree
UpdateListIsPath ==
  [][last'.a \in {"set", "delete"} =>
        /\ last'.upd = JSeq(PathBelow(tree', last'.k))
        /\ Len(last'.upd) = Depth]_vars
\* C15
ProofInSync == tracking => /\ pvalue = contents[tracked]
                           /\ pbranch = Sibs(tree, tracked)
                           /\ CalcRoot(tracked, pvalue, pbranch) = tree
\* only the hashes down to the first differing bit are needed: with exactly that many the
\* update is accepted and the proof is already in sync
ShortestListSuffices ==
  [][(tracking /\ last'.a \in {"set", "delete"} /\ ~last'.short) =>
        (pvalue' = contents'[tracked] /\ pbranch' = Sibs(tree', tracked))]_vars
=============================================================================
