SPECIFICATION TraceSpec
CONSTANTS
  Keys <- TKeys
  Vals <- TVals
  LookupKeys <- TLook
  MaxLive <- Big
CHECK_DEADLOCK FALSE
