---------------------------- MODULE Trace_Binary ----------------------------
(***************************************************************************)
(* Code -> specification for BinaryTrie: histories of the real code on keys  *)
(* of 1-4 arbitrary bytes are recorded with the real trie decoded from its   *)
(* database; every event is matched with the action of BinaryTrie.tla of the *)
(* same name and judged by named clauses (C12.* verdicts, mirror.* notes).   *)
(***************************************************************************)
EXTENDS BinaryTrie, TraceConsts_Binary, Json, IOUtils, TLCExt
Traces == JsonDeserialize(IOEnv.TRACE_FILE)
Big == 100000
VARIABLES tid, l, bad
tvars == <<vars, tid, l, bad>>

V(j) == [tag |-> j[1], len |-> j[2]]
RECURSIVE InflateB(_)
InflateB(j) == IF j = <<>> THEN BBlank
               ELSE CASE j[1] = "L" -> Leaf(V(<<j[2], j[3]>>))
                      [] j[1] = "K" -> KV(j[2], InflateB(j[3]))
                      [] j[1] = "B" -> Br(InflateB(j[2]), InflateB(j[3]))
Tr == Traces[tid]
Fail(c) == PrintT(ToJson([fail |-> <<tid, l, c>>]))
TraceInit == Init /\ tid = 1 /\ l = 1 /\ bad = FALSE

Act(ev) == CASE ev.a = "set" -> Set(ev.k, V(ev.v))
             [] ev.a = "del" -> Del(ev.k)
             [] ev.a = "delsub" -> DelSub(ev.k)
             [] ev.a = "checkout" -> \E p \in past : p.r = InflateB(ev.root) /\ Checkout(p)

Clauses(ev) ==
  LET obs == InflateB(ev.st.root)
      startsSome == \E k \in Live(contents) : StartsWith(k, ev.k) IN
  {
   \* the observed outcome: a conflicting set is refused, a refused call would not have changed
   \* anything the property lets it refuse, everything else succeeds
   <<"C12.refusal", CASE ev.a = "set" -> (ev.ok <=> ~Conflict(contents, ev.k))
                      [] ev.a = "del" -> (~ev.ok => ModelVal(contents, ev.k) = NoVal)
                      [] ev.a = "delsub" -> (~ev.ok => ~startsSome)
                      [] OTHER -> ev.ok>>,
   \* a call that raises raises NodeOverrideError (anything else is logged as crash, with ok = FALSE)
   <<"C12.refusal-type", ~ev.crash>>,
   <<"C12.raise-unchanged", ~ev.ok => obs = root>>,
   <<"C12.root", ev.ok => obs = BCanon(AsMap(IF last'.ok THEN contents'
                                               ELSE IF ev.a = "delsub"
                                                    THEN [k \in Keys |-> IF StartsWith(k, ev.k) THEN NoVal ELSE contents[k]]
                                                    ELSE [contents EXCEPT ![ev.k] = NoVal]))>>,
   <<"C12.look", \A i \in 1..Len(ev.st.look) :
                    LET want == IF ev.ok = last'.ok THEN ModelVal(contents', ev.st.look[i][1])
                                ELSE BLookup(obs, ev.st.look[i][1]) IN
                    V(ev.st.look[i][2]) = want>>,
   <<"C12.appendonly", ev.st.gone = 0>>,
   <<"mirror.outcome", ev.ok = last'.ok>>,
   <<"mirror.root", ev.ok = last'.ok => obs = root'>>
  }

StepEv ==
  /\ tid <= Len(Traces) /\ ~bad /\ l <= Len(Tr.ev)
  /\ LET ev == Tr.ev[l] IN
     /\ Act(ev)
     /\ LET failing == {c \in Clauses(ev) : ~c[2]} IN
        /\ \A c \in failing : Fail(c[1])
        \* if the real code and the transcription disagree on the outcome the model cannot
        \* follow the real state any further: stop this trace (the clauses above have spoken)
        /\ bad' = (failing # {} \/ ev.ok # last'.ok)
  /\ l' = l + 1 /\ tid' = tid
Finish ==
  /\ tid <= Len(Traces) /\ (bad \/ l > Len(Tr.ev))
  /\ PrintT(ToJson([done |-> tid, steps |-> l - 1]))
  /\ tid' = tid + 1 /\ l' = 1 /\ bad' = FALSE
  /\ root' = BBlank /\ db' = {} /\ contents' = EmptyContents
  /\ past' = {[r |-> BBlank, c |-> EmptyContents]}
  /\ last' = [a |-> "init"] /\ hist' = <<>>
TraceNext == StepEv \/ Finish
TraceSpec == TraceInit /\ [][TraceNext]_tvars
=============================================================================
