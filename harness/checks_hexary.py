"""Checks C01-C08 (HexaryTrie): configurations of MC_Hexary / Trace_Hexary and the
glue that turns TLC runs and replays into verdicts and evidence."""
from . import pipeline
from .common import Report

CFG = """SPECIFICATION SpecL{level}
CONSTANTS
  Keys <- {keys}
  LookupKeys <- {look}
  Vals <- {vals}
  MaxLive = {maxlive}
  MaxBatchOps = {maxbatch}
  MaxLost = {maxlost}
  PruneModes <- {prune}
  Features <- {features}
  Bugs <- {bugs}
{invariants}
{properties}
VIEW {view}
{emit}
CHECK_DEADLOCK FALSE
"""


def cfg(*, keys="KQuick", look="LQuick", vals="VQuick", maxlive=3, maxbatch=2, maxlost=0,
        prune="Both", features="FBatch", bugs="NoBugs", invariants=(), properties=(),
        level=5, view="ViewLight", emit="EmitAll"):
    return CFG.format(
        keys=keys, look=look, vals=vals, maxlive=maxlive, maxbatch=maxbatch, maxlost=maxlost,
        prune=prune, features=features, bugs=bugs,
        invariants="\n".join(f"INVARIANT {i}" for i in invariants),
        properties="\n".join(f"PROPERTY {p}" for p in properties),
        level=level, view=view,
        emit=f"ACTION_CONSTRAINT {emit}" if emit else "")


REPLAYER = "harness.hexary:replay_line"

LEVEL = "model_checking"


def run_spec_to_code(rep, cfg_text, opts=(), owners=None, **kw):
    res = pipeline.spec_to_code(rep, "MC_Hexary", cfg_text, REPLAYER, opts, owners=owners, **kw)
    rep.cov["exhaustive"] = True
    rep.cov.setdefault("tlc_runs", []).append(
        {"module": "MC_Hexary", "distinct_states": res.distinct, "transitions": res.generated,
         "depth": res.depth, "emitted": res.emitted, "wall_s": round(res.wall, 1)})
    return res


def run_code_to_spec(rep, modes, n, prune=None):
    """generate n histories of the real code per mode and let TLC validate them"""
    import random

    from . import hexary_driver as hd
    from .common import import_repo, seed

    mod = import_repo()
    rng = random.Random(seed() * 7919 + 17)
    traces = []
    for i in range(n):
        for m in modes:
            traces.append(hd.gen_trace(mod, rng, m, prune))
    probs = sorted({p for t in traces for p in t["problems"]})
    for t in traces:
        if "notcontentaddressed" in t["problems"]:
            rep.violation("C04.contentaddressed" if rep.prop == "C04" else "mirror.contentaddressed",
                          {"problem": "database entry whose key is not keccak(value)"},
                          {"kind": "trace", "trace": t})
    if probs and probs != ["missing"]:
        rep.note(f"driver decode problems: {probs}")
    pipeline.code_to_spec(rep, "Trace_Hexary", "Trace_Hexary.cfg", traces,
                          consts=("TraceConsts_Hexary", hd.consts))
    acts = rep.cov.setdefault("trace_event_counts", {})
    for t in traces:
        for e in t["ev"]:
            key = e["a"] + ("!" + e["out"]["kind"] if e["out"]["kind"] not in ("ok", "val") else "")
            acts[key] = acts.get(key, 0) + 1
    rep.cov.setdefault("trace_modes", []).extend(modes)


ASSUME = ["database is a dict started empty", "hash = identity in the model: keccak collisions are outside it",
          "rlp / eth_hash from the venv and harness/realize.py are trusted",
          "exhaustive only within the bounded universe named in tlc_runs; generated histories beyond it are samples"]


def generic(prop, tier, quick, thorough, *, opts=(), modes=("plain",), ntr=(60, 600), prune=None):
    rep = Report(prop, tier, LEVEL)
    rep.assumptions += ASSUME
    for kw in (quick if tier == "quick" else thorough):
        run_spec_to_code(rep, cfg(**kw), opts)
    run_code_to_spec(rep, modes, ntr[0] if tier == "quick" else ntr[1], prune)
    return rep.finish()


def c01(tier):
    inv = ["MapRefinement", "LookupAgrees", "PairsAreContents"]
    return generic("C01", tier,
                   [dict(invariants=inv, level=5, emit="EmitC01")],
                   [dict(keys="KFull", look="LFull", vals="VFull", maxlive=4, maxbatch=3,
                         invariants=inv, level=6, emit="EmitC01")],
                   modes=("plain", "batch"), ntr=(100, 1500))


CHECKS = {"C01": c01}
