"""Checks C01-C08 (HexaryTrie): configurations of MC_Hexary / Trace_Hexary and the
glue that turns TLC runs and replays into verdicts and evidence."""
from . import pipeline
from .common import Report

CFG = """SPECIFICATION {spec}
CONSTANTS
  Keys <- {keys}
  LookupKeys <- {look}
  Vals <- {vals}
  MaxLive = {maxlive}
  MaxBatchOps = {maxbatch}
  MaxLost = {maxlost}
  PruneModes <- {prune}
  Features <- {features}
  Bugs <- {bugs}
{invariants}
{properties}
VIEW {view}
{emit}
CHECK_DEADLOCK FALSE
"""


def cfg(*, keys="KQuick", look="LQuick", vals="VQuick", maxlive=3, maxbatch=2, maxlost=0,
        prune="Both", features="FBatch", bugs="NoBugs", invariants=(), properties=(),
        level=5, view="ViewLight", emit="EmitAll"):
    return CFG.format(
        keys=keys, look=look, vals=vals, maxlive=maxlive, maxbatch=maxbatch, maxlost=maxlost,
        prune=prune, features=features, bugs=bugs,
        invariants="\n".join(f"INVARIANT {i}" for i in invariants),
        properties="\n".join(f"PROPERTY {p}" for p in properties),
        spec="Spec" if level is None else f"SpecL{level}", view=view,
        emit=f"ACTION_CONSTRAINT {emit}" if emit else "")


REPLAYER = "harness.hexary:replay_line"

LEVEL = "model_checking"


def run_spec_to_code(rep, cfg_text, opts=(), owners=None, **kw):
    res = pipeline.spec_to_code(rep, "MC_Hexary", cfg_text, REPLAYER, opts, owners=owners, **kw)
    if kw.get("simulate"):
        rep.cov.setdefault("tlc_runs", []).append(
            {"module": "MC_Hexary", "mode": "simulate", "behaviours": res.traces, "steps": res.generated,
             "depth": kw["simulate"]["depth"], "emitted": res.emitted, "wall_s": round(res.wall, 1)})
        return res
    rep.cov["exhaustive"] = True
    rep.cov.setdefault("tlc_runs", []).append(
        {"module": "MC_Hexary", "mode": "exhaustive", "distinct_states": res.distinct,
         "transitions": res.generated, "depth": res.depth, "emitted": res.emitted, "wall_s": round(res.wall, 1)})
    return res


def run_code_to_spec(rep, modes, n, prune=None):
    """generate n histories of the real code per mode and let TLC validate them"""
    import random

    from . import hexary_driver as hd
    from .common import import_repo, seed

    mod = import_repo()
    rng = random.Random(seed() * 7919 + 17)
    traces = []
    for i in range(n):
        for m in modes:
            traces.append(hd.gen_trace(mod, rng, m, prune))
    probs = sorted({p for t in traces for p in t["problems"]})
    for t in traces:
        if "notcontentaddressed" in t["problems"]:
            rep.violation("C04.contentaddressed" if rep.prop == "C04" else "mirror.contentaddressed",
                          {"problem": "database entry whose key is not keccak(value)"},
                          {"kind": "trace", "trace": t})
    if probs and probs != ["missing"]:
        rep.note(f"driver decode problems: {probs}")
    pipeline.code_to_spec(rep, "Trace_Hexary", "Trace_Hexary.cfg", traces,
                          consts=("TraceConsts_Hexary", hd.consts))
    acts = rep.cov.setdefault("trace_event_counts", {})
    for t in traces:
        for e in t["ev"]:
            key = e["a"] + ("!" + e["out"]["kind"] if e["out"]["kind"] not in ("ok", "val") else "")
            acts[key] = acts.get(key, 0) + 1
    rep.cov.setdefault("trace_modes", []).extend(modes)


def recorded_repo_tests(rep):
    """4.3: the repository's own hexary tests run under a recorder (pytest plugin living in
    /verif; nothing in /repo is touched) and what they did is validated by TLC like any other trace"""
    import json
    import os
    import subprocess
    import sys

    from .common import REPO, VERIF, MachineryError, scratch
    from . import hexary_driver as hd

    out = os.path.join(scratch(), "recorded.json")
    env = dict(os.environ, PYTHONPATH=VERIF + os.pathsep + REPO, VERIF_RECORD_OUT=out, PYTHONHASHSEED="0",
               HYPOTHESIS_STORAGE_DIRECTORY=os.path.join(scratch(), "hypothesis"))
    files = ["tests/core/test_hexary_trie.py", "tests/core/test_proof.py", "tests/core/test_hexary_trie_walk.py"]
    p = subprocess.run([sys.executable, "-m", "pytest", "-q", "-p", "no:cacheprovider", "-p", "harness.recorder_plugin",
                        "--timeout=900", "-x", "--deselect", "tests/core/test_hexary_trie.py::test_fixtures_exist"] + files,
                       cwd=REPO, env=env, capture_output=True, text=True)
    if not os.path.exists(out):
        raise MachineryError("the recorder wrote nothing:\n" + p.stdout[-600:] + p.stderr[-300:])
    d = json.load(open(out))
    traces = d["traces"]
    if len(traces) < 20:
        raise MachineryError(f"only {len(traces)} executions of the repository's tests were recorded")
    pipeline.code_to_spec(rep, "Trace_Hexary", "Trace_Hexary.cfg", traces, consts=("TraceConsts_Hexary", hd.consts))
    rep.cov["repository_tests_recorded"] = {
        "pytest_summary": p.stdout.strip().splitlines()[-1] if p.stdout.strip() else "",
        "executions_validated": len(traces), "tries_followed": d["tries_followed"], "not_recorded": d["skipped"],
        "tests": sorted({t["test"].split("::")[-1].split("[")[0] for t in traces})}
    if p.returncode not in (0,):
        rep.note("the repository's tests did not all pass under the recorder: " +
                 (p.stdout.strip().splitlines()[-1] if p.stdout.strip() else "?"))


# in which tiers a check also validates the recorded executions of the repository's own tests
RECORDED = {"C01": ("thorough",), "C02": ("thorough",), "C04": ("thorough",), "C05": ("thorough",),
            "C06": ("quick", "thorough"), "C07": ("thorough",)}

ASSUME = ["database is a dict started empty", "hash = identity in the model: keccak collisions are outside it",
          "rlp / eth_hash from the venv and harness/realize.py are trusted",
          "exhaustive only within the bounded universe named in tlc_runs; generated histories beyond it are samples"]


def generic(prop, tier, quick, thorough, *, opts=(), modes=("plain",), ntr=(60, 600), prune=None,
            need_tags=(), sim=None, sim_n=(24, 144), sim_depth=(10, 12), finish=True, recorded=()):
    rep = Report(prop, tier, LEVEL)
    rep.assumptions += ASSUME
    for kw in (quick if tier == "quick" else thorough):
        run_spec_to_code(rep, cfg(**kw), opts)
    # random genuine behaviours of the same specification, replayed step by step: the
    # exhaustive run reaches every transition through a shortest history only, this run
    # reaches states through long and redundant histories (overwrites, no-ops, re-creations)
    q = tier == "quick"
    for kw in ([sim] if isinstance(sim, dict) else (sim or [])):
        kw = dict(kw, level=None)
        # in simulation every generated successor is checked against the invariants, so the
        # state-level emitters print one genuine behaviour (the path walked + that successor) each
        em = kw.get("emit") or "EmitAll"
        kw["invariants"] = [i for i in kw.get("invariants", ()) if not i.startswith("EmitSt")] + \
            [em.replace("Emit", "EmitSt", 1)]
        kw["emit"] = None
        run_spec_to_code(rep, cfg(**kw), opts,
                         simulate=dict(num=sim_n[0] if q else sim_n[1], depth=sim_depth[0] if q else sim_depth[1]))
    if modes:
        run_code_to_spec(rep, modes, ntr[0] if tier == "quick" else ntr[1], prune)
    if tier in (recorded or RECORDED.get(prop, ())):
        recorded_repo_tests(rep)
    for t in need_tags:
        if not rep.cov.get("case_tags", {}).get(t):
            rep.vacuity.append(f"no replayed behaviour was tagged '{t}'")
    return rep.finish() if finish else rep


def c01(tier):
    inv = ["MapRefinement", "LookupAgrees", "PairsAreContents"]
    # every behaviour of up to 5 (6) direct operations on three keys with two short values, nothing
    # merged: state the implementation keeps between calls (caches of decoded nodes, of lookups)
    tiny = dict(keys="KTiny", look="LTiny", vals="VShort2", maxlive=3, features="FDirect", invariants=inv,
                view="ViewHist", emit="EmitC01")
    return generic("C01", tier,
                   [dict(invariants=inv, level=5, emit="EmitC01"), dict(tiny, level=6),
                    # two keys whose leaves are one and the same node (one database entry), batches
                    dict(invariants=inv, level=6, keys="KTwin", look="LTwin", vals="VShare", maxbatch=3,
                         emit="EmitC01")],
                   [dict(invariants=inv, level=6, emit="EmitC01"), dict(tiny, level=7),
                    dict(invariants=inv, level=7, keys="KTwin", look="LTwin", vals="VShare", maxbatch=3,
                         emit="EmitC01"),
                    dict(keys="KFull", look="LFull", vals="VFull", maxlive=3, features="FDirect",
                         invariants=inv, level=4, emit="EmitC01"),
                    dict(keys="KOne", look="LOne", vals="VShare", maxlive=1, maxbatch=2, invariants=inv,
                         view="ViewHist", level=9, emit="EmitC01")],
                   modes=("plain", "batch"), ntr=(100, 1500),
                   sim=dict(keys="KFull", look="LFull", vals="VFull", maxlive=4, maxbatch=3, invariants=inv,
                            features="FBatchNoop", emit="EmitC01"))


def c02(tier):
    inv = ["Canonical", "EmptyIsBlankRoot", "PairsAreContents"]
    pr = ["OrderIndependent"]
    th = dict(keys="KThresh", look="LThresh", maxlive=3, maxbatch=2, invariants=inv, properties=pr,
              emit="EmitC01")
    return generic("C02", tier,
                   [dict(invariants=inv, properties=pr, level=5, emit="EmitC01"),
                    dict(th, vals="VThreshA", features="FDirect", level=4),
                    # the root after a write that raises (in a direct call, in the commit of a batch)
                    dict(invariants=inv, level=5, features="FBatchFail", prune="OnlyNoPrune", emit="EmitC01")],
                   [dict(invariants=inv, properties=pr, level=6, emit="EmitC01"),
                    dict(keys="KTiny", look="LTiny", vals="VShort2", maxlive=3, features="FDirect", invariants=inv,
                         view="ViewHist", emit="EmitC01", level=7),
                    dict(keys="KFull", look="LFull", vals="VFull", maxlive=3, features="FDirect",
                         invariants=inv, properties=pr, level=4, emit="EmitC01"),
                    dict(th, vals="VThreshA", level=5), dict(th, vals="VThreshB", level=5),
                    dict(th, vals="VThreshC", features="FDirect", level=5),
                    dict(keys="KLong", look="LLong", vals="VLong", maxlive=3, features="FDirect", invariants=inv,
                         properties=pr, level=5, emit="EmitC01")],
                   modes=("plain", "batch"), ntr=(100, 1500),
                   sim=[dict(th, vals="VThreshC", features="FBatchNoop", maxlive=4),
                        dict(keys="KFull", look="LFull", vals="VFull", maxlive=4, maxbatch=3, invariants=inv,
                             properties=pr, features="FBatchNoop", emit="EmitC01")],
                   need_tags=("child-node-of-31-bytes", "child-node-of-32-bytes", "embedded-child",
                              "hashed-child", "root-shorter-than-32-bytes"))


def c04(tier):
    inv = ["Readable", "PastRootsReadable"]
    pr = ["AppendOnly", "FailedWriteKeepsRoot"]
    base = dict(prune="OnlyNoPrune", features="FHistCk", invariants=inv, properties=pr)
    rep = generic("C04", tier,
                  [dict(base, level=4, view="ViewFull")],
                  [dict(base, level=5, view="ViewFull"),
                   dict(base, level=4, view="ViewLight", invariants=["Readable"], vals="VFull")],
                  opts=("past",), modes=("second", "batch"), ntr=(80, 1000), prune=False,
                  sim=dict(base, features="FHistCkNoop", view="ViewFull", maxlive=4), finish=False)
    # vacuity: going back to a past root (Checkout) and a second handle must have been exercised both ways
    for a in ("checkout", "adopt"):
        if not rep.cov.get("replayed_last_action_counts", {}).get(a):
            rep.vacuity.append(f"no replayed behaviour ended in '{a}'")
        if not rep.cov.get("trace_event_counts", {}).get(a):
            rep.vacuity.append(f"no validated trace contained '{a}'")
    return rep.finish()


def c05(tier):
    inv = ["Canonical", "Readable", "PruneExact", "RcTrue", "BatchRcTrue"]
    pr = ["CommitExact", "AbortRestores", "OpenBatchIsolated", "AppendOnly"]
    base = dict(features="FBatchFail", invariants=inv, properties=pr)
    # every behaviour of up to 8 (10) calls on one key with two long values, nothing merged:
    # bookkeeping that goes wrong across several batches (stale counts, re-created nodes)
    one = dict(base, keys="KOne", look="LOne", vals="VShare", maxlive=1, maxbatch=2, features="FBatch",
               view="ViewHist")
    return generic("C05", tier,
                   [dict(base, level=5), dict(one, level=9),
                    dict(base, level=6, keys="KTwin", look="LTwin", vals="VShare", maxbatch=3, features="FBatch")],
                   [dict(one, level=11), dict(base, level=6, maxbatch=3),
                    dict(base, level=5, keys="KShare", look="LShare", vals="VShare", maxbatch=3)],
                   modes=("batch",), ntr=(100, 1500),
                   sim=[dict(base, features="FBatchFailNoop", maxbatch=4, maxlive=4),
                        dict(base, features="FBatchFailNoop", keys="KShare", look="LShare", vals="VShare",
                             maxbatch=4, maxlive=4)])


def c06(tier):
    inv = ["PruneExact", "RcTrue", "RegenAgrees", "BatchRcTrue", "Readable"]
    base = dict(prune="OnlyPrune", invariants=inv, properties=["AbortRestores"])
    one = dict(base, keys="KOne", look="LOne", vals="VShare", maxlive=1, maxbatch=2, features="FBatch",
               view="ViewHist")
    rep = generic("C06", tier,
                   [dict(one, level=9), dict(base, level=5, features="FBatchNoop"),
                    dict(base, level=5, keys="KShare", look="LShare", vals="VShare", features="FDirect")],
                   [dict(one, level=10), dict(base, level=6, features="FBatchNoop"),
                    dict(base, level=5, keys="KFull", look="LFull", vals="VFull", maxlive=3, features="FDirect"),
                    dict(base, level=6, keys="KShare", look="LShare", vals="VShare", maxlive=4, features="FDirect")],
                   modes=("plain", "batch"), ntr=(100, 1500), prune=True,
                   sim=[dict(base, features="FBatchNoop", maxbatch=4, maxlive=4, keys="KFull", look="LFull",
                             vals="VFull"),
                        dict(base, features="FBatchNoop", keys="KShare", look="LShare", vals="VShare",
                             maxbatch=4, maxlive=4)],
                   need_tags=("ref-count>=2", "hashed-child", "embedded-child"), finish=False)
    # Beyond the listed properties: a database write that raises during a direct call on a PRUNING
    # trie.  No property quantifies over it (C04 / C05 speak about non-pruning tries there), the
    # specification records what the code does as a named deviation (the writes made before the
    # failure stay, with their counts raised) and TLC checks what is left of C06 (Readable,
    # RcNeverLow, LeftoversCounted).  The behaviours are replayed like all others, but whatever
    # the replay finds is reported as a NOTE, never as a violation.
    before = sum(rep.notes.values())
    run_spec_to_code(rep, cfg(prune="OnlyPrune", features="FFailPrune", level=4 if tier == "quick" else 5,
                              invariants=["Readable", "RcNeverLow", "LeftoversCounted", "MapRefinement", "Canonical"],
                              properties=["FailedWriteKeepsRoot"], view="ViewFaults"),
                     (), owners={"beyond-the-listed-properties"})
    if sum(rep.notes.values()) != before:
        rep.note("BEYOND THE PROPERTIES: after a failed database write on a pruning trie the code does not follow the "
                 "specification's FailWrite action (see the notes above; DESIGN.md section 8)")
    return rep.finish()


def c07(tier):
    inv = ["RetryConverges", "NoWriteBeforeRead", "TraverseTruth", "GetSameAsComplete", "MapRefinement",
           "EmitStC07"]
    pr = ["FailedCallUnchanged", "ReportedTruth"]
    base = dict(keys="KFaults", look="LFaults", vals="VFaults", features="FFaults", maxlost=2,
                invariants=inv, properties=pr, view="ViewFaults")
    two = dict(base, level=7, prune="OnlyPrune", keys="KFaults3", maxlive=2, maxbatch=2, maxlost=1,
               view="ViewFaultsLast")
    # shared interior nodes (count 2) above a lost node, pruning trie: set x 4, lose, failing call, retry
    shared = dict(base, level=7, prune="OnlyPrune", keys="KShare4", look="LShare4", vals="VOne33", maxlive=4,
                  maxlost=1, features="FFaultsDirect")
    return generic("C07", tier,
                   [dict(base, level=5, features="FFaultsDirect"), shared,
                    dict(base, level=5, prune="OnlyPrune", keys="KFaults3", maxlive=2, maxbatch=1),
                    # a pruning trie, batches of two operations, one node lost: with the previous call in the
                    # view, a batch that is left after one of its operations hit the missing node is replayed
                    # behind exactly that history (7 calls: set, set, lose, begin, op, failing op, abort)
                    two],
                   [dict(base, level=6, features="FFaultsDirect", maxlost=3), dict(base, level=5), two,
                    dict(shared, level=10),
                    dict(base, level=5, vals="VQuick", features="FFaultsDirect")],
                   modes=("faults",), ntr=(150, 2000),
                   sim=dict(base, features="FFaultsNoop", maxlost=3, maxlive=4, emit="EmitC07"),
                   need_tags=("missing-node-outcome", "incomplete-database", "calls:traverse:missing"))


def c08(tier):
    inv = ["TraverseMatchesCanon", "TraverseFromAgrees", "RootNodeIsTraverseEmpty", "EmitStC08"]
    base = dict(features="FDirect", invariants=inv, emit=None)
    return generic("C08", tier,
                   [dict(base, level=5)],
                   [dict(base, level=5, keys="KFull", look="LFull", vals="VQuick", maxlive=3),
                    dict(base, level=6, prune="OnlyNoPrune")],
                   modes=(), need_tags=("has-extension", "has-branch", "embedded-child", "hashed-child"),
                   sim=dict(base, features="FBatchNoop", keys="KFull", look="LFull", vals="VQuick", maxlive=5,
                            emit="EmitC08"), sim_n=(12, 72))


def c10(tier):
    inv = ["KeyAfterIsSucc", "FirstIsMin", "PreorderItemsSorted", "PreorderIsTraverse", "EmitStC10"]
    base = dict(features="FDirect", invariants=inv, emit=None)
    rc = generic("C10", tier,
                 [dict(base, level=5), dict(base, level=4, keys="KFull", look="LFull", vals="VQuick", maxlive=3,
                                            prune="OnlyNoPrune")],
                 [dict(base, level=5, keys="KFull", look="LFull", vals="VQuick", maxlive=3),
                  dict(base, level=6, prune="OnlyNoPrune")],
                 modes=(), need_tags=("has-extension", "has-branch", "calls:iter.nodes"),
                 sim=dict(base, features="FBatchNoop", keys="KFull", look="LFull", vals="VQuick", maxlive=5,
                          emit="EmitC10"), sim_n=(12, 72), finish=False)
    rep = rc
    # the loop of NodeIterator.nodes() as a run of the fog-walk specification: always the
    # left-most unexplored prefix, frontier cache on, no mutation; it must visit Preorder(trie)
    from . import checks_misc

    cfgtext = checks_misc.walk_cfg(spec="SpecOrdered", maxlive=3 if tier == "quick" else 4, muts=0, cache="OnlyT",
                                   keys="KWalk" if tier == "quick" else "KWalk2", startall="TRUE")
    cfgtext = cfgtext.replace("PROPERTY Terminates", "PROPERTY Terminates\nINVARIANT OrderedIsPreorder")
    checks_misc.run_s2c(rep, "MC_FogWalk", cfgtext, "harness.fogwalk:replay_line", owners={"C10", "C09"})
    return rep.finish()


def c03(tier):
    inv = ["ProofComplete", "ProofOnPath", "ProofSound", "EmitStC03"]
    base = dict(features="FDirect", invariants=inv, emit=None, prune="OnlyNoPrune")
    return generic("C03", tier,
                   [dict(base, level=4), dict(base, level=4, keys="KThresh", look="LThresh", vals="VThreshC"),
                    # every behaviour (batches included) on one key: proofs after a committed / aborted batch
                    dict(base, level=8, keys="KOne", look="LOne", vals="VShare", maxlive=1, maxbatch=2, features="FBatch",
                         view="ViewHist", prune="Both", invariants=["ProofComplete", "ProofOnPath", "EmitStC03"])],
                   [dict(base, level=5, keys="KFull", look="LFull", vals="VQuick", maxlive=3),
                    dict(base, level=5, prune="OnlyPrune"),
                    dict(base, level=4, keys="KThresh", look="LThresh", vals="VThreshA"),
                    dict(base, level=4, keys="KThresh", look="LThresh", vals="VThreshB")],
                   modes=(), need_tags=("has-extension", "has-branch", "embedded-child", "hashed-child"),
                   sim=dict(base, features="FBatchNoop", keys="KFull", look="LFull", vals="VQuick", maxlive=4,
                            emit="EmitC03", invariants=["ProofComplete", "ProofOnPath"]), sim_n=(12, 48),
                   sim_depth=(5, 9))


CHECKS = {"C01": c01, "C03": c03, "C07": c07, "C08": c08, "C10": c10, "C02": c02, "C04": c04, "C05": c05, "C06": c06}
