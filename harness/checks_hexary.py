"""Checks C01-C08 (HexaryTrie): configurations of MC_Hexary / Trace_Hexary and the
glue that turns TLC runs and replays into verdicts and evidence."""
from . import pipeline
from .common import Report

CFG = """SPECIFICATION Spec
CONSTANTS
  Keys <- {keys}
  LookupKeys <- {look}
  Vals <- {vals}
  MaxLive = {maxlive}
  MaxBatchOps = {maxbatch}
  MaxLost = {maxlost}
  PruneModes <- {prune}
  Features <- {features}
  Bugs <- {bugs}
{invariants}
{properties}
CONSTRAINT {constraint}
VIEW {view}
{emit}
CHECK_DEADLOCK FALSE
"""


def cfg(*, keys="KQuick", look="LQuick", vals="VQuick", maxlive=3, maxbatch=2, maxlost=0,
        prune="Both", features="FBatch", bugs="NoBugs", invariants=(), properties=(),
        level=5, view="ViewLight", emit="EmitAll"):
    return CFG.format(
        keys=keys, look=look, vals=vals, maxlive=maxlive, maxbatch=maxbatch, maxlost=maxlost,
        prune=prune, features=features, bugs=bugs,
        invariants="\n".join(f"INVARIANT {i}" for i in invariants),
        properties="\n".join(f"PROPERTY {p}" for p in properties),
        constraint=f"Lvl{level}", view=view,
        emit=f"ACTION_CONSTRAINT {emit}" if emit else "")


REPLAYER = "harness.hexary:replay_line"

LEVEL = "model_checking"


def run_spec_to_code(rep, cfg_text, opts=(), owners=None, **kw):
    res = pipeline.spec_to_code(rep, "MC_Hexary", cfg_text, REPLAYER, opts, owners=owners, **kw)
    rep.cov["exhaustive"] = True
    rep.cov.setdefault("tlc_runs", []).append(
        {"module": "MC_Hexary", "distinct_states": res.distinct, "transitions": res.generated,
         "depth": res.depth, "emitted": res.emitted, "wall_s": round(res.wall, 1)})
    return res


def c01(tier):
    rep = Report("C01", tier, LEVEL)
    rep.assumptions += ["database is a dict started empty", "hash collisions are outside the model"]
    inv = ["MapRefinement", "LookupAgrees", "PairsAreContents"]
    if tier == "quick":
        run_spec_to_code(rep, cfg(invariants=inv, level=5, emit="EmitC01"))
    else:
        run_spec_to_code(rep, cfg(keys="KFull", look="LFull", vals="VFull", maxlive=4, maxbatch=3,
                                  invariants=inv, level=6, emit="EmitC01"))
    return rep.finish()


CHECKS = {"C01": c01}
