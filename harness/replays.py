"""`./check Cnn --replay FILE`: re-execute exactly the stored behaviour / trace / table row on
the current /repo and report whether it still violates the property."""
import importlib
import json

from .common import MachineryError, Report, import_repo


def rerun(prop, data):
    rp = data["replay"]
    kind = rp.get("kind")
    mod = import_repo()
    print(f"replaying stored {kind} for {prop} (clause {data.get('clause')})")
    if kind == "behaviour":
        name = rp.get("replayer")
        if not name:
            raise MachineryError("the replay file does not name its replayer")
        mname, fname = name.split(":")
        m = importlib.import_module(mname)
        ctx = m.make_context(mod)
        fs = getattr(m, fname)(rp["behaviour"], ctx, frozenset(rp.get("opts") or ()))
        mine = [f for f in fs if f[0] == rp.get("owner", prop)]
        for f in fs:
            print(f"  finding owner={f[0]} clause={f[1]} detail={json.dumps(f[2], default=str)[:400]}")
        if mine:
            print(f"VIOLATION property={prop} replay={data.get('_path', '?')}")
            return 1
        print(f"{prop}: the stored behaviour no longer violates the property")
        return 0
    if kind == "trace":
        from . import pipeline

        module = rp.get("module", "Trace_Hexary")
        drv = importlib.import_module({"Trace_Hexary": "harness.hexary_driver", "Trace_Binary": "harness.binary_driver",
                                       "Trace_SMT": "harness.smt_driver", "Trace_ScratchDB": "harness.scratchdb_driver",
                                       "Trace_Fog": "harness.fog_driver"}[module])
        rep = Report(prop, "quick", "model_checking")
        fresh = drv.rerun_trace(mod, rp["trace"])
        if fresh.get("broken"):
            print("  the re-executed calls again leave a database that is not a sparse tree over its default")
            print(f"VIOLATION property={prop} replay={data.get('_path', '?')}")
            return 1
        pipeline.code_to_spec(rep, module, rp.get("cfg", module + ".cfg"), [fresh],
                              consts=("TraceConsts_" + module.split("_", 1)[1], drv.consts), batches=1,
                              owners={"C01", "C02", "C04", "C05", "C06", "C07", "C11", "C12", "C14", "C15", "C17"})
        for v in rep.violations:
            print(f"  finding clause={v['clause']} detail={json.dumps(v['detail'], default=str)[:400]}")
        if rep.violations:
            print(f"VIOLATION property={prop} replay={data.get('_path', '?')}")
            return 1
        print(f"{prop}: the stored history, re-executed on the current code, is accepted by the specification")
        return 0
    if kind == "smt-calls":
        print("  stored as a list of calls that left an undecodable tree; run the check again to re-examine")
        return 2
    if kind == "codec-row":
        from . import codec
        import random

        row = rp["row"]
        ctx = codec.make_context(mod)
        # recompute the real results for the same input and compare with the recorded (specified) ones
        fresh = [r for r in codec.record_inputs(mod, [row])]
        same = all(fresh[0].get(k) == v for k, v in row.items() if k != "id")
        print("  real results now:", json.dumps(fresh[0])[:400])
        if not same:
            print(f"{prop}: the real results changed since the violation was recorded; run the check again")
        print(f"VIOLATION property={prop} replay={data.get('_path', '?')}" if same else f"{prop}: not reproduced")
        return 1 if same else 0
    raise MachineryError(f"unknown replay kind {kind!r}")
