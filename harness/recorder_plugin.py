"""pytest plugin (`-p harness.recorder_plugin`, PYTHONPATH=/verif; nothing in /repo changes):
records what the repository's own tests do with HexaryTrie, in the event format that
Trace_Hexary.tla validates.  Only tries that start on an empty dict with the blank root are
followed; database entries the test removes or puts back behind the trie's back become explicit
lose / supply events; anything the trace format cannot express (foreign entries, a root assigned
by hand, more than MAX_STEPS calls) ends the recording of that trie, and is counted."""
import contextlib
import json
import os

from . import realize
from .hexary import classify
from .realize import BLANK_ROOT, decode_entry, decode_root, nibbles_of

MAX_STEPS = 48
MAX_TRIES = int(os.environ.get("VERIF_RECORD_MAX", "30"))      # per test
OUT = os.environ.get("VERIF_RECORD_OUT")

STATE = {"recs": {}, "batch_of": {}, "done": [], "skipped": {}, "test": "", "started": 0}


def skip(why):
    STATE["skipped"][why] = STATE["skipped"].get(why, 0) + 1


class Rec:
    def __init__(self, trie, mod):
        self.mod = mod                 # the `trie` package (classify() reads mod.exceptions)
        self.t = trie
        self.db = trie.db
        self.prune = trie.is_pruning
        self.ev = []
        self.prev = {}
        self.shadow = {}
        self.lost = {}
        self.faults = False
        self.batch = None
        self.last_root = trie.root_hash
        self.last_broot = None
        self.alive = True
        self.problems = []
        self.registry = {}
        self.test = STATE["test"]

    def end(self, why):
        if self.alive:
            self.alive = False
            skip("recording ended: " + why)

    def view(self):
        from collections import ChainMap

        maps = [self.db, self.shadow]
        if self.batch is not None:
            maps.insert(0, {k: v for k, v in self.batch.db.cache.items() if isinstance(v, bytes)})
        return ChainMap(*maps)

    def reconcile(self):
        """explain what happened to the database since the last event, or stop; never raises"""
        realize.VALUE_REGISTRY = self.registry
        try:
            self._reconcile()
        except Exception as exc:  # noqa
            self.end("could not be expressed: " + type(exc).__name__ + ": " + str(exc)[:60])
        finally:
            realize.VALUE_REGISTRY = None

    def _reconcile(self):
        if not self.alive:
            return
        if self.t.root_hash != self.last_root:
            return self.end("root hash assigned from outside")
        if self.batch is not None and self.batch.root_hash != self.last_broot:
            return self.end("root hash of the batch assigned from outside")
        now = dict(self.db)
        gone = [k for k in self.prev if k not in now]
        new = [k for k in now if k not in self.prev]
        changed = [k for k in now if k in self.prev and now[k] != self.prev[k]]
        if changed:
            return self.end("database entry overwritten from outside")
        for k in new:
            if self.lost.get(k) != now[k]:
                return self.end("foreign database entry")
        cur = dict(self.prev)
        for k in gone:
            self.shadow.update(self.prev)
            node = decode_entry(self.shadow, k, self.problems)
            self.lost[k] = self.prev[k]
            self.faults = True
            del cur[k]
            self.emit("lose", {"kind": "ok"}, n=node, now_override=dict(cur))     # one entry per event
        for k in new:
            known = dict(self.shadow)
            known[k] = now[k]
            node = decode_entry(known, k, self.problems)
            del self.lost[k]
            cur[k] = now[k]
            self.emit("supply", {"kind": "ok"}, n=node, now_override=dict(cur))

    def emit(self, a, real, *, i=1, k=b"", v=b"", n=None, now_override=None, look=()):
        outer_registry = realize.VALUE_REGISTRY
        realize.VALUE_REGISTRY = self.registry
        try:
            trie = self.batch if a in ("bset", "bget") and self.batch is not None else self.t
            out = {"kind": real["kind"], "n": [], "prefix": [], "v": [0, 0], "rootok": True, "detail": ""}
            if real["kind"] == "missing":
                h = real["hash"]
                self.shadow.update(self.db)
                out["n"] = decode_entry(self.shadow, h, self.problems) if h in self.shadow else \
                    ["L", [15, 15, 15], 1, 1, 0, 0]
                out["prefix"] = real["prefix"] or []
                out["rootok"] = real["root"] == trie.root_hash and real["key"] == k
            elif real["kind"] == "val":
                out["v"] = list(realize.unval(real["v"]))
            elif real["kind"] not in ("ok", "ioerror"):
                out["detail"] = str(real)[:200]
            self.shadow.update(self.db)
            if self.batch is not None:
                self.shadow.update({kk: vv for kk, vv in self.batch.db.cache.items() if isinstance(vv, bytes)})
            now = dict(self.db) if now_override is None else now_override
            add = [x for x in now if x not in self.prev]
            dele = [x for x in self.prev if x not in now]
            view = self.view()
            from collections import ChainMap

            st = {"root": decode_root(view, trie.root_hash, self.problems),
                  "add": [decode_entry(view, x, self.problems) for x in add],
                  "del": [decode_entry(ChainMap(self.prev, view), x, self.problems) for x in dele],
                  "rc": [], "look": []}
            if self.prune:
                rc = {x: c for x, c in self.t.ref_count.items() if c}
                st["rc"] = [[decode_entry(view, x, self.problems), c] for x, c in rc.items() if x in view]
                if any(x not in view for x in rc):
                    st["rc"].append([["L", [15, 15, 15], 1, 1, 0, 0], -1])
            if not self.lost and real["kind"] == "ok":
                for key in look:
                    try:
                        got = trie.get.__wrapped__(trie, key)
                        st["look"].append([nibbles_of(key), list(realize.unval(got))])
                    except Exception:  # noqa
                        st["look"].append([nibbles_of(key), [238, 4]])
            self.prev = now
            self.last_root = self.t.root_hash
            self.last_broot = self.batch.root_hash if self.batch is not None else None
            self.ev.append({"a": a, "i": i, "k": nibbles_of(k), "v": list(realize.unval(v)), "j": 0, "n": n or [],
                            "root": [], "out": out, "st": st})
            if len(self.ev) >= MAX_STEPS:
                self.end("more than %d calls" % MAX_STEPS)
        except Exception as exc:  # noqa
            self.end("could not be expressed: " + type(exc).__name__ + ": " + str(exc)[:60])
        finally:
            realize.VALUE_REGISTRY = outer_registry

    def trace(self):
        probs = [p[0] for p in self.problems]
        if any(p in ("badnode", "badref") for p in probs):
            return None
        return {"prune": self.prune, "faults": self.faults, "ev": self.ev, "problems": probs, "test": self.test}


def find(trie):
    rec = STATE["recs"].get(id(trie))
    if rec is not None and rec.t is trie:
        return rec, False
    rec = STATE["batch_of"].get(id(trie))
    if rec is not None and rec.batch is trie:
        return rec, True
    return None, False


def install():
    import trie as mod
    from trie.hexary import HexaryTrie
    from trie.utils.db import ScratchDB

    o_init, o_set, o_delete, o_get, o_squash = (HexaryTrie.__init__, HexaryTrie.set, HexaryTrie.delete, HexaryTrie.get,
                                                HexaryTrie.squash_changes)

    def init(self, db, root_hash=BLANK_ROOT, prune=False, ref_count=None):
        o_init(self, db, root_hash, prune, ref_count)
        if type(db) is dict and not db and root_hash == BLANK_ROOT and ref_count is None:
            if STATE["started"] < MAX_TRIES:
                STATE["started"] += 1
                STATE["recs"][id(self)] = Rec(self, mod)
            else:
                skip("trie not followed: cap of %d per test reached" % MAX_TRIES)

    def write(orig, name):
        def w(self, key, value=b""):
            rec, in_batch = find(self)
            if rec is None or not rec.alive or not isinstance(key, bytes) or not isinstance(value, bytes):
                return orig(self, key, value) if name == "set" else orig(self, key)
            rec.reconcile()
            if rec.alive and rec.batch is not None and not in_batch:
                rec.end("outer trie written while a batch is open")
            if not rec.alive:
                return orig(self, key, value) if name == "set" else orig(self, key)
            try:
                r = orig(self, key, value) if name == "set" else orig(self, key)
                real = {"kind": "ok"}
            except Exception as exc:  # noqa
                real = classify(exc, rec)
                rec.emit("bset" if in_batch else "set", real, k=key, v=value)
                raise
            rec.emit("bset" if in_batch else "set", real, k=key, v=value, look=(key, key[:-1], key + b"\x00"))
            return r
        w.__wrapped__ = orig
        return w

    def get(self, key):
        rec, in_batch = find(self)
        if rec is None or not rec.alive or not isinstance(key, bytes):
            return o_get(self, key)
        rec.reconcile()
        if not rec.alive:
            return o_get(self, key)
        try:
            r = o_get(self, key)
        except Exception as exc:  # noqa
            rec.emit("bget" if in_batch else "get", classify(exc, rec), k=key)
            raise
        rec.emit("bget" if in_batch else "get", {"kind": "val", "v": r}, k=key)
        return r
    get.__wrapped__ = o_get

    @contextlib.contextmanager
    def squash(self):
        rec, in_batch = find(self)
        if rec is None or not rec.alive or in_batch or rec.batch is not None:
            with o_squash(self) as b:
                yield b
            return
        rec.reconcile()
        try:
            with o_squash(self) as b:
                if rec.alive:
                    rec.batch = b
                    STATE["batch_of"][id(b)] = rec
                    rec.emit("begin", {"kind": "ok"})
                yield b
        except BaseException:
            if rec.alive and rec.batch is not None:
                rec.batch = None
                rec.emit("abort", {"kind": "ok"})
            rec.batch = None
            raise
        else:
            if rec.alive and rec.batch is not None:
                rec.batch = None
                rec.emit("commit", {"kind": "ok"})
            rec.batch = None

    HexaryTrie.__init__ = init
    HexaryTrie.set = write(o_set, "set")
    HexaryTrie.delete = write(o_delete, "delete")
    HexaryTrie.get = get
    HexaryTrie.squash_changes = squash


def flush():
    for rec in STATE["recs"].values():
        if rec.batch is None and len(rec.ev) >= 2:
            t = rec.trace()
            if t is not None:
                STATE["done"].append(t)
            else:
                skip("trace dropped: undecodable node")
        elif rec.ev:
            skip("trace dropped: shorter than two calls or left inside a batch")
    STATE["recs"].clear()
    STATE["batch_of"].clear()


def pytest_configure(config):
    install()
    try:        # recording slows the calls down: no hypothesis deadlines (explicit @settings still win)
        from hypothesis import settings

        settings.register_profile("verif-recorder", deadline=None)
        settings.load_profile("verif-recorder")
    except Exception:  # noqa
        pass


def pytest_runtest_setup(item):
    flush()
    STATE["test"] = item.nodeid
    STATE["total"] = STATE.get("total", 0) + STATE["started"]
    STATE["started"] = 0


def pytest_sessionfinish(session, exitstatus):
    flush()
    if OUT:
        with open(OUT, "w") as fh:
            json.dump({"traces": STATE["done"], "skipped": STATE["skipped"],
                       "tries_followed": STATE.get("total", 0) + STATE["started"]}, fh)
