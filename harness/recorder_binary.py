"""pytest plugin (`-p harness.recorder_binary`, PYTHONPATH=/verif; nothing in /repo changes):
records what the repository's own tests do with BinaryTrie, in the event format that
Trace_Binary.tla validates (one event per public set / delete / delete_subtrie call: arguments,
outcome, the real trie decoded from its database, what every key used so far reads as, how many
database entries disappeared).  Only tries that start on an empty dict are followed, each for at
most MAX_STEPS calls; values are arbitrary bytes (abstract tags through realize.VALUE_REGISTRY)."""
import json
import os

from . import realize
from .binary_driver import BLANK, decode
from .smt_driver import bits_of

MAX_STEPS = int(os.environ.get("VERIF_RECORD_STEPS", "40"))
MAX_TRIES = int(os.environ.get("VERIF_RECORD_MAX", "12"))      # per test
OUT = os.environ.get("VERIF_RECORD_OUT")
STATE = {"recs": {}, "done": [], "skipped": {}, "test": "", "started": 0, "total": 0, "depth": 0}


def skip(why):
    STATE["skipped"][why] = STATE["skipped"].get(why, 0) + 1


class Rec:
    def __init__(self, trie):
        self.t = trie
        self.ev = []
        self.keys = []
        self.registry = {}
        self.alive = True
        self.test = STATE["test"]
        self.last_root = trie.root_hash

    def end(self, why):
        if self.alive:
            self.alive = False
            skip("recording ended: " + why)


def install():
    from trie.binary import BinaryTrie
    from trie.exceptions import NodeOverrideError

    o_init, o_get = BinaryTrie.__init__, BinaryTrie.get
    originals = {"set": BinaryTrie.set, "del": BinaryTrie.delete, "delsub": BinaryTrie.delete_subtrie}

    def init(self, db, root_hash=BLANK):
        o_init(self, db, root_hash)
        if type(db) is dict and not db and root_hash == BLANK:
            if STATE["started"] < MAX_TRIES:
                STATE["started"] += 1
                STATE["recs"][id(self)] = Rec(self)
            else:
                skip("not followed: more than MAX_TRIES tries in one test")
        else:
            skip("not followed: does not start on an empty dict")

    def wrap(a):
        orig = originals[a]

        def w(self, key, *rest):
            rec = STATE["recs"].get(id(self))
            value = rest[0] if (a == "set" and rest) else b""
            if (rec is None or rec.t is not self or not rec.alive or STATE["depth"]
                    or not isinstance(key, bytes) or not key or not isinstance(value, bytes)):
                return orig(self, key, *rest)
            if self.root_hash != rec.last_root:
                rec.end("root hash assigned from outside")
                return orig(self, key, *rest)
            if len(rec.ev) >= MAX_STEPS:
                rec.end("more than MAX_STEPS calls (the prefix is validated)")
                return orig(self, key, *rest)
            before = dict(self.db)
            STATE["depth"] += 1
            ok, raised = True, None
            try:
                r = orig(self, key, *rest)
            except NodeOverrideError as exc:
                ok, raised = False, exc
            except Exception as exc:  # noqa
                ok, raised = None, exc
            finally:
                STATE["depth"] -= 1
            try:
                observe(rec, "del" if (a == "set" and value == b"") else a, key, value, ok, before)
            except Exception as exc:  # noqa   (the recorder never raises into the test)
                rec.end("could not be expressed: " + type(exc).__name__ + ": " + str(exc)[:60])
            if raised is not None:
                raise raised
            return r
        w.__wrapped__ = orig
        return w

    def observe(rec, a, key, value, ok, before):
        trie, db = rec.t, rec.t.db
        if key not in rec.keys:
            rec.keys.append(key)
        realize.VALUE_REGISTRY = rec.registry
        STATE["depth"] += 1
        try:
            look = []
            for p in rec.keys:
                try:
                    got = o_get(trie, p)
                    look.append([bits_of(p), list(realize.unval(got)) if got is not None else [0, 0]])
                except Exception:  # noqa
                    look.append([bits_of(p), [238, 4]])
            gone = len([h for h, body in before.items() if db.get(h) != body])
            rec.ev.append({"a": a, "k": bits_of(key), "v": list(realize.unval(value)), "ok": bool(ok),
                           "crash": ok is None,
                           "st": {"root": decode(db, trie.root_hash), "look": look, "gone": gone}})
            rec.last_root = trie.root_hash
        finally:
            STATE["depth"] -= 1
            realize.VALUE_REGISTRY = None

    BinaryTrie.__init__ = init
    BinaryTrie.set = wrap("set")
    BinaryTrie.delete = wrap("del")
    BinaryTrie.delete_subtrie = wrap("delsub")


def flush():
    for rec in STATE["recs"].values():
        if len(rec.ev) >= 2:
            STATE["done"].append({"ev": rec.ev, "test": rec.test})
        elif rec.ev:
            skip("trace dropped: shorter than two calls")
    STATE["recs"].clear()


def pytest_configure(config):
    install()
    try:        # recording slows the calls down: no hypothesis deadlines (explicit @settings still win)
        from hypothesis import settings

        settings.register_profile("verif-recorder", deadline=None)
        settings.load_profile("verif-recorder")
    except Exception:  # noqa
        pass


def pytest_runtest_setup(item):
    flush()
    STATE["test"] = item.nodeid
    STATE["total"] += STATE["started"]
    STATE["started"] = 0


def pytest_sessionfinish(session, exitstatus):
    flush()
    if OUT:
        with open(OUT, "w") as fh:
            json.dump({"traces": STATE["done"], "skipped": STATE["skipped"],
                       "tries_followed": STATE["total"] + STATE["started"]}, fh)
