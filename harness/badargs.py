"""Concrete ill-formed arguments for the abstract kinds of the Rejected tables (C18)."""

NOT_BYTES = [None, 1, "s", bytearray(b"ab"), [1], (1,), memoryview(b"a"), 1.5, {"k": 1}]
NOT_SEQUENCE = [None, 5, "F", 15, b"\x01", 1.5]
BAD_NIBBLES = [(16,), (1, 16), (-1,), (0, 255), [3, 16, 1]]


def pick(seq, n):
    return seq[n % len(seq)]


def exc_matches(e, want, trie_exc):
    """the refusal must be of the tabulated class: the library's own ValidationError, or the builtin"""
    if want == "ValidationError":
        import eth_utils

        return isinstance(e, (trie_exc.ValidationError, eth_utils.ValidationError))
    return type(e).__name__ == want
