"""Known findings: /verif/known_findings.json is committed and never written at
run time.  An *open* entry suppresses exactly the violations its signature
matches (printed as KNOWN-FINDING); a *fixed* entry suppresses nothing."""
import json
import os

from .common import VERIF

_cache = None


def _load():
    global _cache
    if _cache is None:
        path = os.path.join(VERIF, "known_findings.json")
        _cache = json.load(open(path)) if os.path.exists(path) else {"findings": []}
    return _cache


def match_open(prop, violation):
    """Return the id of the open finding whose signature matches, else None.
    A signature is {clause: <exact clause name>, where: {key: value, ...}} and
    matches when the clause is equal and every `where` item equals the same
    key in the violation's detail."""
    for f in _load()["findings"]:
        if f.get("status") != "open" or f.get("property") != prop:
            continue
        sig = f.get("signature", {})
        if sig.get("clause") != violation["clause"]:
            continue
        det = violation.get("detail") or {}
        if all(det.get(k) == v for k, v in sig.get("where", {}).items()):
            return f["id"]
    return None


def describe(fid):
    for f in _load()["findings"]:
        if f["id"] == fid:
            return f"{fid}: {f['what']}"
    return fid
