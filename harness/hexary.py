"""Replaying behaviours of HexaryTrie.tla on the real trie.HexaryTrie through the
public API only, and judging the outcome with per-property acceptance predicates.

A behaviour is the list of action records `h` emitted by TLC plus the
observables `st` the specification predicts for the final state.  Every finding
is a tuple (owner, clause, detail) where owner is the property the failed
clause belongs to, or "mirror" for exact-transcription comparisons the
properties do not demand."""
import json

from .common import import_repo
import rlp

from .realize import BLANK_ROOT, Realizer, key_of, val, keccak


class InjectedWriteError(Exception):
    """raised by FaultyDict for the armed write"""


class UserAbort(Exception):
    """the exception a user raises inside a squash_changes block"""


class UserBaseAbort(BaseException):
    """a block may also be left by something that is not an Exception (KeyboardInterrupt, CancelledError)"""


class FaultyDict(dict):
    """dict whose n-th __setitem__ after arm(n) raises; counts reads"""

    def __init__(self, *a):
        super().__init__(*a)
        self._armed = 0
        self.reads = 0

    def arm(self, n):
        self._armed = n

    def __setitem__(self, k, v):
        if self._armed:
            self._armed -= 1
            if self._armed == 0:
                raise InjectedWriteError("injected write failure")
        super().__setitem__(k, v)

    def __getitem__(self, k):
        self.reads += 1
        return super().__getitem__(k)


class World:
    """the real objects of one behaviour"""

    def __init__(self, trie_mod, prune, rz):
        self.mod = trie_mod
        self.H = trie_mod.HexaryTrie
        self.rz = rz
        self.db = FaultyDict()
        self.t = self.H(self.db, prune=prune)
        self.prune = prune
        # handle 2: a second, non-pruning trie on the same database (starts at the blank root)
        self.t2 = None if prune else self.H(self.db)
        self.cm = None
        self.batch = None
        self.opts = frozenset()
        self.n = 0                    # position in the behaviour (selects API spelling)
        self.pasts = []               # (root_hash, {key: value}) recorded along the way
        self.dirty = False            # a write failed on this pruning trie: counts no longer the true ones


def snapshot(w):
    rc = None
    if w.prune:
        rc = {k: v for k, v in w.t.ref_count.items() if v}
    return (dict(w.db), w.t.root_hash, rc,
            None if w.t2 is None else w.t2.root_hash,
            None if w.batch is None else (w.batch.root_hash, dict(w.batch.db.cache),
                                          {k: v for k, v in w.batch.ref_count.items() if v}))


def classify(exc, w):
    """real exception -> outcome record comparable with the spec's `out`"""
    ex = w.mod.exceptions
    if isinstance(exc, ex.MissingTrieNode):
        return {"kind": "missing", "hash": bytes(exc.missing_node_hash),
                "root": bytes(exc.root_hash), "key": bytes(exc.requested_key),
                "prefix": None if exc.prefix is None else [int(x) for x in exc.prefix]}
    if isinstance(exc, ex.MissingTraversalNode):
        return {"kind": "missingtraversal", "hash": bytes(exc.missing_node_hash),
                "prefix": [int(x) for x in exc.nibbles_traversed]}
    if isinstance(exc, InjectedWriteError):
        return {"kind": "ioerror"}
    if isinstance(exc, ex.ValidationError):
        return {"kind": "verr", "msg": str(exc)[:200]}
    return {"kind": "exc", "type": type(exc).__name__, "msg": str(exc)[:200]}


def do_write(trie, key, v, n):
    """set / delete in one of the equivalent spellings, chosen by position"""
    if v == b"":
        which = n % 3
        if which == 0:
            trie.delete(key)
        elif which == 1:
            del trie[key]
        else:
            trie.set(key, b"") if n % 2 else trie.__setitem__(key, b"")
    else:
        if n % 2:
            trie.set(key, v)
        else:
            trie[key] = v


def step(w, ev):
    """perform one action record on the real objects; returns the real outcome"""
    a = ev["a"]
    w.n += 1
    try:
        if a == "set":
            trie = w.t if ev["i"] == 1 else w.t2
            do_write(trie, key_of(ev["k"]), val(*ev["v"]), w.n)
        elif a == "bset":
            do_write(w.batch, key_of(ev["k"]), val(*ev["v"]), w.n)
        elif a == "failwrite":
            w.dirty = w.dirty or w.prune      # counts are stale from here on (named deviation of the spec)
            w.db.arm(ev["j"])
            try:
                do_write(w.t, key_of(ev["k"]), val(*ev["v"]), w.n)
            finally:
                w.db.arm(0)
        elif a == "adopt":
            rh = w.rz.root_hash(ev["root"])
            if w.n % 2:
                w.t2 = w.H(w.db, rh)
            else:
                with w.t.at_root(rh) as snap:
                    w.t2 = snap
        elif a == "checkout":
            # handle 1 goes back to a root it (or handle 2) had before
            w.t.root_hash = w.rz.root_hash(ev["root"])
        elif a == "begin":
            w.cm = w.t.squash_changes()
            w.batch = w.cm.__enter__()
        elif a == "commit":
            cm, w.cm, w.batch = w.cm, None, None
            cm.__exit__(None, None, None)
        elif a == "commitfail":
            cm, w.cm, w.batch = w.cm, None, None
            w.db.arm(ev["j"])
            try:
                cm.__exit__(None, None, None)
            finally:
                w.db.arm(0)
        elif a == "abort":
            cm, w.cm, w.batch = w.cm, None, None
            e = UserAbort() if w.n % 2 else UserBaseAbort()
            try:
                swallowed = cm.__exit__(type(e), e, None)
            except (UserAbort, UserBaseAbort):
                swallowed = False
            if swallowed:
                return {"kind": "exc", "type": "swallowed", "msg": "squash_changes swallowed the exception"}
        elif a == "lose":
            del w.db[w.rz.node(ev["n"])["hash"]]
        elif a == "supply":
            r = w.rz.node(ev["n"])
            dict.__setitem__(w.db, r["hash"], r["enc"])
        elif a == "reject":
            return do_reject(w, ev)
        elif a in ("get", "bget"):
            trie = w.batch if a == "bget" else w.t
            key = key_of(ev["k"])
            which = w.n % 4
            if which < 2:
                got = trie.get(key) if which else trie[key]
                return {"kind": "val", "v": got}
            got = trie.exists(key) if which == 2 else (key in trie)
            return {"kind": "val", "exists": got}
        else:
            raise ValueError(f"unknown action {a}")
    except Exception as exc:  # noqa
        return classify(exc, w)
    return {"kind": "ok"}


REJECT_KEYS = [b"", b"\x00", b"\x00\x00", b"\x01\x00", b"\x00\x00\x01", b"\x10", b"\x00\x01\x00\x00"]


def do_reject(w, ev):
    """perform the ill-formed call of a Rejected event; returns the outcome record"""
    from . import badargs as ba

    t = w.batch if ev["on"] == "batch" and w.batch is not None else w.t
    H = w.H
    n = w.n
    e, arg, kind = ev["entry"], ev["arg"], ev["kind"]
    bad = ba.pick(ba.NOT_BYTES, n)
    key = ba.pick(REJECT_KEYS, n)
    try:
        if e == "get":
            t.get(bad)
        elif e == "exists":
            t.exists(bad)
        elif e == "getitem":
            t[bad]
        elif e == "contains":
            bad in t
        elif e == "delete":
            t.delete(bad)
        elif e == "delitem":
            del t[bad]
        elif e == "get_proof":
            t.get_proof(bad)
        elif e in ("set", "setitem"):
            k, v = (bad, b"v" * (1 + n % 40)) if arg == "key" else (key, bad)
            if e == "set":
                t.set(k, v)
            else:
                t[k] = v
        elif e == "get_from_proof":
            if arg == "key":
                H.get_from_proof(w.t.root_hash, bad, ())
            else:
                H.get_from_proof(bad, key, ())
        elif e == "constructor":
            if arg == "root":
                H(w.db, bad)
            else:
                H(w.db, prune=False, ref_count={})
        elif e == "at_root":
            with w.t.at_root(bad if kind == "notbytes" else w.t.root_hash):
                pass
        elif e in ("traverse", "traverse_from"):
            p = ba.pick(ba.NOT_SEQUENCE, n) if kind == "notsequence" else ba.pick(ba.BAD_NIBBLES, n)
            if e == "traverse":
                t.traverse(p)
            else:
                t.traverse_from(t.root_node, p)
        else:
            return {"kind": "exc", "type": "harness", "msg": f"unknown rejected entry {e}"}
    except Exception as exc:  # noqa
        ok = ba.exc_matches(exc, ev["exc"], w.mod.exceptions)
        return {"kind": "rejected" if ok else "wrongexc", "type": type(exc).__name__, "msg": str(exc)[:120]}
    return {"kind": "accepted"}


def compare_outcome(w, ev, real, pre, post, out):
    """acceptance of the outcome of the last call of a behaviour"""
    exp = ev["out"]
    a = ev["a"]
    rz = w.rz
    if a == "reject":
        what = {"entry": ev["entry"], "arg": ev["arg"], "kind": ev["kind"], "on": ev["on"], "real": real}
        if real["kind"] == "accepted":
            out.append(("C18", "ill-formed-call-not-refused", what))
        elif real["kind"] != "rejected":
            out.append(("C18", "ill-formed-call-refused-with-the-wrong-exception", dict(what, expected=ev["exc"])))
        if pre["snap"] != post:
            out.append(("C18", "refused-call-changed-state", what))
        return
    if exp["kind"] == "ok":
        if real["kind"] != "ok":
            owner = "C07" if real["kind"].startswith("missing") else \
                    "C05" if a in ("begin", "commit", "abort") else "C01"
            out.append((owner, "call-raised-unexpectedly", {"action": a, "real": real}))
            if owner == "C01" and a == "bset":
                # a batch whose operation raises for no reason cannot exit normally (C05, first sentence)
                out.append(("C05", "batch-operation-raised-unexpectedly", {"action": a, "real": real}))
        return
    if exp["kind"] == "val":
        if real["kind"] != "val":
            out.append(("C07" if real["kind"].startswith("missing") else "C01", "lookup-raised",
                        {"key": ev["k"], "real": real}))
        elif "exists" in real:
            if real["exists"] != (val(*exp["v"]) != b""):
                out.append(("C01", "exists-wrong", {"key": ev["k"], "real": real["exists"]}))
        elif real["v"] != val(*exp["v"]):
            out.append(("C01", "lookup-wrong-value", {"key": ev["k"], "real": real["v"],
                                                      "expected": val(*exp["v"])}))
        return
    if exp["kind"] == "ioerror":
        if real["kind"] != "ioerror":
            out.append(("mirror", "write-failure-not-reached", {"action": a, "real": real}))
        return
    if exp["kind"] == "missing":
        # C07: right class, a node that is really absent and really needed
        if real["kind"] != "missing":
            # the property allows the call to succeed, provided the result is the complete-database one
            trie = w.batch if a in ("bset", "bget") and w.batch is not None else (w.t2 if ev.get("i") == 2 else w.t)
            if real["kind"] == "ok" and "wroot" in ev and trie is not None and \
                    trie.root_hash == rz.root_hash(ev["wroot"]):
                out.append(("mirror", "call-succeeded-without-the-node-the-transcription-reads", {"action": a}))
            elif real["kind"] == "val":
                out.append(("mirror", "lookup-succeeded-without-the-node-the-transcription-reads", {"action": a}))
            else:
                out.append(("C07", "call-neither-reported-the-missing-node-nor-gave-the-complete-database-result",
                            {"action": a, "real": real}))
            return
        trie_root = pre["broot"] if a in ("bset", "bget") else pre["root2" if ev.get("i") == 2 else "root"]
        if real["root"] != trie_root:
            out.append(("C07", "missing-wrong-root-hash", {"real": real["root"], "expected": trie_root}))
        if real["key"] != key_of(ev["k"]):
            out.append(("C07", "missing-wrong-key", {"real": real["key"], "expected": key_of(ev["k"])}))
        store = w.batch.db if a in ("bset", "bget") and w.batch is not None else w.db
        if real["hash"] in store:
            out.append(("C07", "missing-reports-present-node", {"hash": real["hash"]}))
        need = {rz.node(j)["hash"] for j in ev.get("need", [])}
        if "need" in ev and real["hash"] not in need:
            out.append(("C07", "missing-reports-node-off-path", {"hash": real["hash"]}))
        if real["hash"] != rz.node(exp["n"])["hash"]:
            out.append(("mirror", "missing-different-node-than-transcription", {"hash": real["hash"]}))
        if a in ("get", "bget"):
            if real["prefix"] != exp["prefix"] and real["hash"] == rz.node(exp["n"])["hash"]:
                out.append(("C07", "missing-wrong-prefix", {"real": real["prefix"],
                                                            "expected": exp["prefix"]}))
        # atomic failure
        if pre["snap"] != post:
            out.append(("C07", "failed-call-changed-state", {"action": a}))
        return
    if exp["kind"] == "verr":
        # named deviation D1 kept in the model: only reachable with Bugs # {}
        if real["kind"] != "verr":
            out.append(("mirror", "deviation-not-reproduced", {"real": real}))
        return
    out.append(("mirror", "unknown-expected-kind", {"exp": exp}))


def lookups(trie, pairs, n, owner_clause, out):
    for i, (k, v) in enumerate(pairs):
        key = key_of(k)
        want = val(*v)
        try:
            got = trie.get(key) if (n + i) % 2 else trie[key]
            ex = trie.exists(key) if (n + i) % 3 else (key in trie)
        except Exception as exc:  # noqa
            out.append(("C01", owner_clause + "-lookup-raised",
                        {"key": key, "exc": type(exc).__name__, "msg": str(exc)[:160]}))
            continue
        if got != want:
            out.append(("C01", owner_clause + "-wrong-value", {"key": key, "got": got, "want": want}))
        if ex != (want != b""):
            out.append(("C01", owner_clause + "-exists-disagrees", {"key": key, "exists": ex}))


def check_state(w, st, out, last):
    """compare the real final state with the observables the specification predicts"""
    rz = w.rz
    n = w.n
    faults = st.get("nlost", 0) > 0
    # C02: canonical root, stored under its hash byte for byte
    exp_root = rz.root_hash(st["root"])
    if w.t.root_hash != exp_root:
        out.append(("C02", "root-hash-not-canonical", {"real": w.t.root_hash, "expected": exp_root}))
    elif st["root"] and not faults:
        if dict.get(w.db, exp_root) != rz.node(st["root"])["enc"]:
            out.append(("C02", "root-node-bytes-differ", {"root": exp_root}))
    if not st["root"] and w.t.root_hash != BLANK_ROOT:
        out.append(("C02", "empty-trie-not-blank-root", {"real": w.t.root_hash}))
    # C01: lookups on a complete database
    if not faults:
        lookups(w.t, st["look"], n, "outer", out)
        if st["bopen"] and w.batch is not None:
            lookups(w.batch, st["blook"], n, "batch", out)
            if w.batch.root_hash != rz.root_hash(st["broot"]):
                out.append(("C02", "batch-root-hash-not-canonical", {"real": w.batch.root_hash}))
        if w.t2 is not None:
            lookups(w.t2, st["look2"], n, "second", out)
            if w.t2.root_hash != rz.root_hash(st["root2"]):
                out.append(("C02", "second-root-hash-not-canonical", {"real": w.t2.root_hash}))
    if st.get("light"):
        return
    if "classify" in w.opts:
        classify_nodes(w, st, out)
    # database contents
    exp_db = rz.db(st["db"])
    real_db = dict(w.db)
    for k, v in real_db.items():
        if keccak(v) != k:
            out.append(("C04", "entry-not-content-addressed", {"key": k}))
            break
    if w.prune and not faults and not st["bopen"]:
        # C06: exactly the live nodes, true counts
        if real_db != exp_db:
            miss = [k for k in exp_db if k not in real_db]
            extra = [k for k in real_db if k not in exp_db]
            out.append(("C06", "db-missing-live-node" if miss else "db-has-leftover-node",
                        {"missing": miss[:3], "leftover": extra[:3]}))
        rc = {k: v for k, v in w.t.ref_count.items() if v}
        exp_rc = rz.bag(st["rc"])
        if rc != exp_rc:
            diff = {k.hex(): (rc.get(k), exp_rc.get(k)) for k in set(rc) | set(exp_rc)
                    if rc.get(k) != exp_rc.get(k)}
            out.append(("C06", "ref-count-not-true", {"real_vs_true": diff,
                                                      "after": last["a"] if last else None}))
        try:
            regen = {k: v for k, v in w.t.regenerate_ref_count().items() if v}
            if regen != rc and not w.dirty:
                out.append(("C06", "ref-count-differs-from-regenerate", {}))
        except Exception as exc:  # noqa
            out.append(("C06", "regenerate-raised", {"exc": type(exc).__name__}))
    elif real_db != exp_db:
        out.append(("mirror", "db-differs-from-transcription",
                    {"missing": len([k for k in exp_db if k not in real_db]),
                     "extra": len([k for k in real_db if k not in exp_db])}))
    if w.prune and st["bopen"] and w.batch is not None and not faults:
        brc = {k: v for k, v in w.batch.ref_count.items() if v}
        if brc != rz.bag(st["brc"]):
            out.append(("mirror", "batch-ref-count-differs-from-transcription", {}))


TYPES = {0: "blank", 1: "leaf", 2: "ext", 3: "branch"}


def describe_node(node):
    """HexaryTrieNode -> the fields the property talks about"""
    return {"t": TYPES.get(int(node.node_type), str(node.node_type)),
            "subs": [[int(x) for x in seg] for seg in node.sub_segments],
            "v": bytes(node.value), "suffix": [int(x) for x in node.suffix]}


def real_traverse(w, fn):
    """run a traversal; returns (description dict, node object or None, sim node or None)"""
    ex = w.mod.exceptions
    try:
        node = fn()
    except ex.TraversedPartialPath as exc:
        d = describe_node(exc.node)
        d.update(kind="partial", trav=[int(x) for x in exc.nibbles_traversed],
                 tail=[int(x) for x in exc.untraversed_tail])
        try:
            sim = exc.simulated_node
            sd = describe_node(sim)
            d.update(st=sd["t"], ssubs=sd["subs"], ssuffix=sd["suffix"], sv=sd["v"])
        except Exception as e2:  # noqa
            sim = None
            d.update(st="raised:" + type(e2).__name__, ssubs=[], ssuffix=[], sv=None)
        return d, None, sim
    except ex.MissingTraversalNode as exc:
        return {"kind": "missing", "hash": bytes(exc.missing_node_hash),
                "trav": [int(x) for x in exc.nibbles_traversed]}, None, None
    except Exception as exc:  # noqa
        return {"kind": "raised", "exc": type(exc).__name__, "msg": str(exc)[:160]}, None, None
    d = describe_node(node)
    d["kind"] = "node"
    return d, node, None


def expected_desc(e, rz):
    d = e["d"]
    x = {"kind": d["kind"]}
    if d["kind"] == "missing":
        x["hash"] = rz.node(e["n"])["hash"]
        x["trav"] = d["trav"]
        return x
    x.update(t=d["t"], subs=d["subs"], v=val(d["v"]["tag"], d["v"]["len"]), suffix=d["suffix"])
    if d["kind"] == "partial":
        x.update(trav=d["trav"], tail=d["tail"], st=d["st"], ssubs=d["ssubs"], ssuffix=d["ssuffix"],
                 sv=x["v"] if d["st"] == "leaf" else b"")
    return x


def check_traverse(w, st, out):
    """C08 (and C07 where node bodies are absent): traverse / traverse_from / root_node
    against the table the specification computed for this state"""
    rz = w.rz
    table = {tuple(e["p"]): e for e in st["trav"]}
    nodes, sims, bad = {}, {}, 0
    lossy = st.get("nlost", 0) > 0

    def differ(path, how, exp, got):
        nonlocal bad
        bad += 1
        if bad > 6:
            return
        owner = "C07" if (exp.get("kind") == "missing" or got.get("kind") == "missing" or lossy) else "C08"
        out.append((owner, how, {"path": list(path), "expected": exp, "real": got}))

    for path, e in sorted(table.items()):
        exp = expected_desc(e, rz)
        r0 = w.db.reads
        got, node, sim = real_traverse(w, lambda: w.t.traverse(path))
        reads = w.db.reads - r0
        count("traverse")
        count("traverse:" + exp["kind"] + ("-blank" if exp.get("t") == "blank" else ""))
        if got != exp:
            differ(path, "traverse-differs", exp, got)
            continue
        if reads > e["hops"] + 1:
            differ(path, "traverse-reads-more-than-one-entry-per-hop", {"hops": e["hops"]}, {"reads": reads})
        if node is not None and got["t"] != "blank":
            nodes[path] = node
        if sim is not None:
            sims[path] = sim
    if () in table and table[()]["d"]["kind"] == "node":
        got, node, _ = real_traverse(w, lambda: w.t.root_node)
        exp = expected_desc(table[()], rz)
        if got != exp:
            differ((), "root_node-differs-from-traverse-of-empty-path", exp, got)
    # traverse_from(node obtained at prefix, segment) == traverse(prefix + segment)
    for path, e in sorted(table.items()):
        whole = expected_desc(e, rz)
        for n in range(len(path) + 1):
            pre, seg = path[:n], path[n:]
            if pre in nodes:
                start = nodes[pre]
                exp = dict(whole)
                if exp["kind"] in ("partial", "missing"):
                    if exp["trav"][:len(pre)] != list(pre):
                        continue
                    exp["trav"] = exp["trav"][len(pre):]
                r0 = w.db.reads
                got, _, _ = real_traverse(w, lambda: w.t.traverse_from(start, seg))
                reads = w.db.reads - r0
                count("traverse_from")
                if got != exp:
                    differ(path, "traverse_from-differs-from-traverse", dict(exp, prefix=list(pre)), got)
                hops = e["hops"] - table[pre]["hops"]
                if reads > max(hops, 0):
                    differ(path, "traverse_from-reads-more-than-one-entry-per-hop",
                           {"hops": hops, "prefix": list(pre)}, {"reads": reads})
            elif pre in sims and seg and not lossy:
                got, _, _ = real_traverse(w, lambda: w.t.traverse_from(sims[pre], seg))
                count("traverse_from-simulated-node")
                if got["kind"] != whole["kind"]:
                    differ(path, "traverse_from-simulated-node-wrong-kind", dict(whole, prefix=list(pre)), got)
                elif whole["kind"] == "node":
                    if got != whole:
                        differ(path, "traverse_from-simulated-node-differs", dict(whole, prefix=list(pre)), got)
                elif whole["kind"] == "partial":
                    keys = ("st", "ssubs", "ssuffix", "sv")
                    if any(got.get(k) != whole.get(k) for k in keys):
                        differ(path, "traverse_from-simulated-node-differs", dict(whole, prefix=list(pre)), got)


def check_iter(w, st, out):
    """C10: NodeIterator over the real trie against the sorted contents / successor / pre-order
    the specification computed for this state"""
    import importlib

    it = importlib.import_module("trie.iter").NodeIterator(w.t)
    tab = st["iter"]
    keys = [key_of(k) for k, _ in tab["items"]]
    vals = [val(*v) for _, v in tab["items"]]
    bad = 0

    def fail(clause, detail):
        nonlocal bad
        bad += 1
        if bad <= 6:
            out.append(("C10", clause, detail))

    def run(name, fn):
        count("iter." + name)
        try:
            return fn()
        except Exception as exc:  # noqa
            fail(name + "-raised", {"exc": type(exc).__name__, "msg": str(exc)[:160]})
            return None

    got = run("keys", lambda: list(it.keys()))
    if got is not None and got != keys:
        fail("keys-not-the-sorted-contents", {"got": got, "want": keys})
    got = run("items", lambda: list(it.items()))
    if got is not None and got != list(zip(keys, vals)):
        fail("items-not-the-sorted-contents", {"got": got, "want": list(zip(keys, vals))})
    got = run("values", lambda: list(it.values()))
    if got is not None and got != vals:
        fail("values-not-in-key-order", {"got": got, "want": vals})
    got = run("nodes", lambda: [(tuple(int(x) for x in p), describe_node(n)) for p, n in it.nodes()])
    want = [(tuple(e["p"]), {"t": e["t"], "subs": e["subs"], "v": val(*e["v"]), "suffix": e["suffix"]})
            for e in tab["nodes"]]
    if got is not None and got != want:
        fail("nodes-not-the-preorder-of-the-trie", {"got": got[:8], "want": want[:8]})
    first = key_of(tab["first"]["k"]) if tab["first"]["some"] else None
    got = run("next", lambda: ("r", it.next()))
    if got is not None and got[1] != first:
        fail("next()-not-the-smallest-key", {"got": got[1], "want": first})
    got = run("next", lambda: ("r", it.next(None)))
    if got is not None and got[1] != first:
        fail("next(None)-not-the-smallest-key", {"got": got[1], "want": first})
    for e in tab["next"]:
        q = key_of(e["q"])
        wantk = key_of(e["r"]["k"]) if e["r"]["some"] else None
        got = run("next", lambda: ("r", it.next(q)))
        if got is not None and got[1] != wantk:
            fail("next(k)-not-the-strict-successor", {"k": q, "got": got[1], "want": wantk})


def alter(raw):
    """well-formed variants of a raw node whose hash differs"""
    outs = _alter(raw)
    return [o for o in outs if o != list(raw)]


def _alter(raw):
    outs = []
    if len(raw) == 2:
        if isinstance(raw[1], bytes):
            outs.append([raw[0], raw[1] + b"x"])
            # same length, every byte different from the original (never the original node itself)
            outs.append([raw[0], bytes((x ^ 0x55) for x in raw[1]) or b"\x55"])
        p = bytearray(raw[0])
        p[-1] ^= 1
        outs.append([bytes(p), raw[1]])
    else:
        outs.append(list(raw[:16]) + [raw[16] + b"z"])
        for i in range(16):
            if raw[i] != b"":
                outs.append(list(raw[:i]) + [b""] + list(raw[i + 1:]))
                break
    return outs


def check_proofs(w, st, out):
    """C03: get_proof is on-path and sufficient; get_from_proof is sound for forged lists"""
    rz = w.rz
    H = w.H
    bad = 0
    ex = w.mod.exceptions

    def fail(clause, detail):
        nonlocal bad
        bad += 1
        if bad <= 6:
            out.append(("C03", clause, detail))

    def offer(rh, key, nodes):
        try:
            return ("val", H.get_from_proof(rh, key, nodes))
        except ex.BadTrieProof:
            return ("bad", None)
        except Exception as exc:  # noqa
            return ("raised", type(exc).__name__ + ": " + str(exc)[:120])

    root_hash = rz.root_hash(st["root"])
    for e in st["proofs"]:
        key = key_of(e["k"])
        want = val(*e["v"])
        try:
            proof = w.t.get_proof(key)
        except Exception as exc:  # noqa
            fail("get_proof-raised", {"key": key, "exc": type(exc).__name__})
            continue
        on_path = [rz.node(j)["raw"] for j in e["path"]]
        for nd in proof:
            if list(nd) not in on_path:
                fail("proof-contains-node-off-the-path", {"key": key})
                break
        if [list(nd) for nd in proof] != [rz.node(j)["raw"] for j in e["proof"]]:
            out.append(("mirror", "proof-differs-from-transcription", {"key": key}))
        got = offer(root_hash, key, proof)
        count("get_proof")
        if got != ("val", want):
            fail("own-proof-does-not-verify", {"key": key, "got": got, "want": want})
    pool = [rz.node(j)["raw"] for j in st["db"]]
    # a trie nobody in this behaviour has seen
    other = H({})
    other[b"\x00\x01"] = b"o" * 40
    other[b"\x00\x10"] = b"p" * 40
    other[b""] = b"q" * 33
    foreign = [rlp.decode(v) for v in other.db.values()]
    import itertools

    # claimed roots: the current one and (to bound the cost of long histories) two earlier ones
    cur = json.dumps(st["root"])
    olds = sorted({json.dumps(e["r"]) for e in st["needs"]} - {cur})
    keep = {cur} | set(olds[:1] + olds[-1:])
    for e in st["needs"]:
        if json.dumps(e["r"]) not in keep:
            continue
        key = key_of(e["k"])
        truth = val(*e["v"])
        rh = rz.root_hash(e["r"])
        need = [rz.node(j) for j in e["need"]]
        need_raw = [n["raw"] for n in need]
        others = [r for r in pool if r not in need_raw]
        cases = []
        for r in range(len(need) + 1):
            for sub in itertools.combinations(range(len(need)), r):
                chosen = [need_raw[i] for i in sub]
                full = len(sub) == len(need)
                cases.append((chosen, full, "subset"))
                cases.append((chosen + others, full, "subset+rest-of-db"))
                if not full:
                    withheld = [need_raw[i] for i in range(len(need)) if i not in sub]
                    cases.append((chosen + [a for x in withheld for a in alter(x)], False, "withheld-replaced-by-altered"))
                    cases.append((chosen + foreign, False, "withheld-replaced-by-foreign"))
        cases.append((list(reversed(need_raw)), True, "reversed"))
        cases.append((need_raw + need_raw[:1] + foreign, True, "duplicate+foreign"))
        cases.append((others + list(reversed(need_raw)) + others, True, "shuffled"))
        for nodes, full, how in cases:
            got = offer(rh, key, nodes)
            count("get_from_proof")
            count("get_from_proof:" + ("sufficient" if full else "forged"))
            if full:
                if got != ("val", truth):
                    fail("sufficient-proof-rejected-or-wrong", {"key": key, "how": how, "got": got, "truth": truth})
            else:
                if got[0] == "val":
                    fail("proof-with-withheld-node-accepted" if got[1] == truth else
                         "forged-proof-returned-different-value",
                         {"key": key, "how": how, "got": got, "truth": truth})
                elif got[0] == "raised":
                    fail("forged-proof-raised-other-exception", {"key": key, "how": how, "got": got})
    # an unrelated root: nothing we can offer resolves it except its own nodes
    got = offer(other.root_hash, b"\x00\x01", pool)
    if got[0] != "bad" and not (got == ("val", b"o" * 40)):
        fail("unrelated-root-resolved-wrongly", {"got": got})


def classify_nodes(w, st, out):
    """C16 (iii): every node of the database, read back, classifies as the kind it was written
    as and yields the key path it was written with"""
    import importlib

    nd = importlib.import_module("trie.utils.nodes")
    kinds = {"L": 1, "E": 2, "B": 3}
    for j in st["db"]:
        r = w.rz.node(j)
        raw = dict.get(w.db, r["hash"])
        if raw is None:
            continue
        node = nd.decode_node(raw)
        count("classify")
        try:
            t = nd.get_node_type(node)
            if t != kinds[j[0]]:
                out.append(("C16", "hexary-node-misclassified", {"node": j[0], "got": t}))
            preds = (nd.is_blank_node(node), nd.is_leaf_node(node), nd.is_extension_node(node), nd.is_branch_node(node))
            if preds != (False, j[0] == "L", j[0] == "E", j[0] == "B"):
                out.append(("C16", "hexary-node-predicates-disagree-with-its-kind", {"node": j[0], "predicates": preds}))
            if j[0] in "LE" and tuple(nd.extract_key(node)) != tuple(j[1]):
                out.append(("C16", "hexary-node-key-path-wrong", {"want": j[1], "got": list(nd.extract_key(node))}))
        except Exception as exc:  # noqa
            out.append(("C16", "hexary-node-classification-raised", {"exc": type(exc).__name__}))
    if nd.get_node_type(b"") != 0 or (nd.is_blank_node(b""), nd.is_leaf_node(b""), nd.is_extension_node(b""),
                                        nd.is_branch_node(b"")) != (True, False, False, False):
        out.append(("C16", "blank-node-misclassified", {}))


def touch(w, st):
    """read-only calls made between the steps of a behaviour and never judged: they exist to fill
    whatever caches / scratch state the implementation keeps, so that state left over from an earlier
    call is present when the final state is examined (the intermediate states themselves are the
    final states of shorter emitted behaviours)"""
    import importlib

    tries = [w.t] + ([w.batch] if w.batch is not None else [])
    look = st.get("look") or []
    key = key_of(look[w.n % len(look)][0]) if look else b""
    for t in tries:
        for fn in (lambda: t.root_node, lambda: t.get_proof(key), lambda: t.exists(key),
                   lambda: importlib.import_module("trie.iter").NodeIterator(t).next(key),
                   lambda: t.traverse(())):
            try:
                fn()
            except Exception:  # noqa
                pass
    if w.batch is not None and w.n % 3 == 0 and not st.get("nlost"):
        # a nested batch that does nothing: opening and leaving it must not disturb the outer one
        try:
            with w.batch.squash_changes():
                pass
        except Exception:  # noqa
            pass


def pre_info(w):
    return {"root": w.t.root_hash,
            "root2": None if w.t2 is None else w.t2.root_hash,
            "broot": None if w.batch is None else w.batch.root_hash,
            "snap": snapshot(w)}


def table(trie, look, out):
    t = {}
    for k, _ in look:
        key = key_of(k)
        try:
            t[key] = trie.get(key)
        except Exception as exc:  # noqa
            t[key] = ("raised", type(exc).__name__)
    return t


def replay(obj, mod, rz, opts=frozenset()):
    """Run one emitted behaviour on the real code.  Returns the list of findings."""
    h, st = obj["h"], obj["st"]
    w = World(mod, st["prune"], rz)
    w.opts = opts
    out = []
    begin = None
    track_past = "past" in opts and not st["prune"]
    pasts = {}
    last = None
    for idx, ev in enumerate(h):
        is_last = idx == len(h) - 1
        pre = pre_info(w) if is_last else None
        if ev["a"] == "begin":
            begin = snapshot(w)
        db_before = dict(w.db) if is_last else None
        if ev["a"] == "reject" and not is_last:
            pre_r = pre_info(w)
            real = step(w, ev)
            compare_outcome(w, ev, real, pre_r, snapshot(w), out)
            continue
        real = step(w, ev)
        if not is_last and "notouch" not in opts:
            touch(w, st)
        if track_past and st.get("nlost", 0) == 0 and ev["a"] not in ("lose", "supply"):
            for tr in (w.t, w.t2):
                if tr is not None and tr.root_hash not in pasts:
                    pasts[tr.root_hash] = table(tr, st["look"], out)
        if not is_last:
            continue
        last = ev
        post = snapshot(w)
        compare_outcome(w, ev, real, pre, post, out)
        a = ev["a"]
        now_db = dict(w.db)
        if not st["prune"] and a not in ("lose", "supply"):
            # C04: non-pruning tries only ever add content-addressed entries
            gone = [k for k, v in db_before.items() if now_db.get(k) != v]
            if gone:
                out.append(("C04", "entry-removed-or-changed", {"action": a, "keys": gone[:3]}))
        if a in ("failwrite", "commitfail") and real["kind"] == "ioerror":
            if w.t.root_hash != pre["root"]:
                out.append(("C04", "root-moved-by-failed-write", {"action": a}))
        if a in ("abort", "commitfail") and begin is not None:
            # C05: exactly as before the block
            b_db, b_root, b_rc = begin[0], begin[1], begin[2]
            if w.t.root_hash != b_root:
                out.append(("C05", "abort-changed-root", {"action": a}))
            if w.prune and {k: v for k, v in w.t.ref_count.items() if v} != b_rc:
                out.append(("C05", "abort-changed-ref-counts", {"action": a}))
                bi = max(i for i, e in enumerate(h) if e["a"] == "begin")
                if any((e.get("out") or {}).get("kind", "").startswith("missing") for e in h[bi:]):
                    # the batch failed on a missing node: C07 wants the counts untouched by that failure
                    out.append(("C07", "batch-that-hit-a-missing-node-left-ref-counts-changed", {"action": a}))
            if a == "abort" and st.get("nlost", 0) == 0 and not any(
                    e["a"] in ("lose", "supply") for e in h) and now_db != b_db:
                out.append(("C05", "abort-changed-database", {"action": a}))
            if a == "commitfail" and any(now_db.get(k) != v for k, v in b_db.items()):
                out.append(("C05", "failed-commit-lost-data", {}))
        if a == "commit" and real["kind"] == "ok" and begin is not None and "stored" in st:
            stored = rz.db(st["stored"])
            miss = [k for k in stored if k not in now_db]
            if miss and st.get("nlost", 0) == 0 and not any(e["a"] == "lose" for e in h):
                out.append(("C05", "commit-missing-node-of-new-root", {"missing": miss[:3]}))
            if not st["prune"] and not any(e["a"] in ("lose", "supply") for e in h):
                if any(now_db.get(k) != v for k, v in begin[0].items()):
                    out.append(("C05", "commit-removed-existing-entry", {}))
            # pruning or not: whatever the commit added must be needed by the new root
            extra = [k for k in now_db if k not in begin[0] and k not in stored]
            if extra and not any(e["a"] in ("lose", "supply") or e.get("i") == 2 for e in h):
                out.append(("C05", "commit-added-intermediate-node", {"extra": extra[:3], "prune": st["prune"]}))
    check_state(w, st, out, last)
    if st.get("nlost", 0) == 0 and "stored" in st:
        stored = rz.db(st["stored"])
        miss = [k for k in stored if dict.get(w.db, k) != stored[k]]
        if miss and not st["bopen"]:
            out.append(("C06" if st["prune"] else "C04", "live-node-not-in-database", {"missing": miss[:3]}))
    if track_past:
        for rh, tab in pasts.items():
            for how in (0, 1):
                try:
                    if how:
                        snap = w.H(w.db, rh)
                    else:
                        with w.t.at_root(rh) as s0:
                            snap = s0
                    now = table(snap, st["look"], out)
                except Exception as exc:  # noqa
                    out.append(("C04", "past-root-unreadable", {"root": rh, "exc": type(exc).__name__}))
                    continue
                if now != tab:
                    bad = [k for k in tab if now.get(k) != tab[k]]
                    out.append(("C04", "past-root-reads-differently", {"root": rh, "keys": bad[:3]}))
    if "trav" in st:
        check_traverse(w, st, out)
    if "proofs" in st:
        check_proofs(w, st, out)
    if "iter" in st:
        check_iter(w, st, out)
    if rz.size_mismatch:
        out.append(("machinery", "spec-size-arithmetic-differs-from-rlp", {"n": rz.size_mismatch[:2]}))
        del rz.size_mismatch[:]
    return out


def _walk(j, acc):
    if not j:
        return
    t = j[0]
    if t == "L":
        acc.append(("L", j[4]))
    elif t == "E":
        acc.append(("E", j[3]))
        _walk(j[2], acc)
    elif t == "B":
        acc.append(("B", j[4]))
        for c in j[1]:
            _walk(c, acc)


COUNTS = {}


def count(name, n=1):
    COUNTS[name] = COUNTS.get(name, 0) + n


def stats(obj, ctx):
    """tags describing what the final state of a behaviour exercises (non-vacuity counters)"""
    st = obj["st"]
    tags = [("calls:" + k, v) for k, v in COUNTS.items()]
    COUNTS.clear()
    acc = []
    _walk(st.get("root"), acc)
    szs = [s for _, s in acc[1:]]          # non-root nodes: the embed/hash decision applies
    for b in (31, 32, 33):
        if b in szs:
            tags.append(f"child-node-of-{b}-bytes")
    if acc and acc[0][1] < 32:
        tags.append("root-shorter-than-32-bytes")
    if any(s < 32 for s in szs):
        tags.append("embedded-child")
    if any(s >= 32 for s in szs):
        tags.append("hashed-child")
    if any(s >= 56 for _, s in acc):
        tags.append("rlp-long-list-node")
    if any(c >= 2 for _, c in st.get("rc") or []):
        tags.append("ref-count>=2")
    if any(c >= 3 for _, c in st.get("rc") or []):
        tags.append("ref-count>=3")
    kinds = {t for t, _ in acc}
    for t in kinds:
        tags.append("has-" + {"L": "leaf", "E": "extension", "B": "branch"}[t])
    h = obj.get("h") or []
    if any(e.get("a") == "reject" for e in h[:-1]):
        tags.append("rejected-call-in-mid-history")
    if h and h[-1].get("out", {}).get("kind") == "missing":
        tags.append("missing-node-outcome")
    if st.get("nlost"):
        tags.append("incomplete-database")
    return tags


def make_context(mod):
    return (mod, Realizer())


def replay_line(obj, ctx, opts):
    from .common import c18_relabel

    fs = replay(obj, ctx[0], ctx[1], opts)
    return c18_relabel(obj, fs, lambda o: replay(o, ctx[0], ctx[1], opts))
