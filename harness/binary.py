"""Replaying behaviours of BinaryTrie.tla on trie.binary.BinaryTrie and trie.branches.
Own realisation of the binary node formats (kv / branch / leaf, key-path packing)."""
import importlib
import json

from eth_hash.auto import keccak

from .common import MachineryError
from .realize import val

BLANK_HASH = keccak(b"")
COUNTS = {}


def count(k, n=1):
    COUNTS[k] = COUNTS.get(k, 0) + n


def pack_keypath(bits):
    """key path of a kv node: 2-bit (len mod 4) marker after a 00 (or 100000) prefix, padded
    on the left to whole nibbles -- written from the format description, not from the library"""
    pad = (4 - len(bits)) % 4
    body = [0] * pad + list(bits)
    marker = [(len(bits) % 4) >> 1, (len(bits) % 4) & 1]
    if len(body) % 8 == 4:
        allbits = [0, 0] + marker + body
    else:
        allbits = [1, 0, 0, 0, 0, 0] + marker + body
    if len(allbits) % 8:
        raise MachineryError("key path packing is not byte aligned")
    return bytes(sum(b << (7 - i) for i, b in enumerate(allbits[j:j + 8])) for j in range(0, len(allbits), 8))


def bits_to_bytes(bits):
    if len(bits) % 8:
        raise MachineryError("key is not a whole number of bytes")
    return bytes(sum(b << (7 - i) for i, b in enumerate(bits[j:j + 8])) for j in range(0, len(bits), 8))


class BinRealizer:
    def __init__(self):
        self.memo = {}

    def node(self, j):
        """compact spec node -> (encoding, hash); blank -> (None, BLANK_HASH)"""
        if not j:
            return None, BLANK_HASH
        key = json.dumps(j, separators=(",", ":"))
        r = self.memo.get(key)
        if r is None:
            t = j[0]
            if t == "L":
                enc = b"\x02" + val(j[1], j[2])
            elif t == "K":
                enc = b"\x00" + pack_keypath(j[1]) + self.node(j[2])[1]
            elif t == "B":
                enc = b"\x01" + self.node(j[1])[1] + self.node(j[2])[1]
            else:
                raise MachineryError(f"bad binary spec node {j!r}")
            r = (enc, keccak(enc))
            self.memo[key] = r
        return r

    def db(self, nodes):
        return {self.node(j)[1]: self.node(j)[0] for j in nodes}


def make_context(mod):
    return (mod, importlib.import_module("trie.branches"), importlib.import_module("trie.exceptions"), BinRealizer())


RZ = None  # the realizer of the current context (set by replay_one)


def step(trie, ev, n, exc):
    key = bits_to_bytes(ev["k"])
    a = ev["a"]
    try:
        if a == "set":
            if n % 2:
                trie.set(key, val(*ev["v"]))
            else:
                trie[key] = val(*ev["v"])
        elif a == "del":
            w = n % 3
            if w == 0:
                trie.delete(key)
            elif w == 1:
                del trie[key]
            else:
                trie.set(key, b"")
        elif a == "delsub":
            trie.delete_subtrie(key)
        elif a == "checkout":
            enc, rh = RZ.node(ev["root"])
            if enc is None or n % 2:
                trie.root_hash = rh
            else:
                trie.root_node = enc
        else:
            raise MachineryError(f"unknown action {a}")
    except exc.NodeOverrideError:
        return "override"
    except MachineryError:
        raise
    except Exception as e:  # noqa
        return "raised:" + type(e).__name__ + ":" + str(e)[:100]
    return "ok"


def do_reject(trie, db, ev, n, ctx):
    """C18: perform the ill-formed call; returns (verdict, detail)"""
    from . import badargs as ba

    mod, br, exc, rz = ctx
    bad = ba.pick(ba.NOT_BYTES, n)
    e, arg = ev["entry"], ev["arg"]
    key = ba.pick([b"\x00", b"\x01", b"\x00\x01", b"\x80\x00\x00", b"\xff"], n)
    try:
        if e == "get":
            trie.get(bad)
        elif e == "exists":
            trie.exists(bad)
        elif e == "getitem":
            trie[bad]
        elif e == "contains":
            bad in trie
        elif e == "delete":
            trie.delete(bad)
        elif e == "delitem":
            del trie[bad]
        elif e == "delete_subtrie":
            trie.delete_subtrie(bad)
        elif e in ("set", "setitem"):
            k, v = (bad, b"v") if arg == "key" else (key, bad)
            if e == "set":
                trie.set(k, v)
            else:
                trie[k] = v
        elif e == "constructor":
            mod.BinaryTrie(db, bad)
        elif e == "check_if_branch_exist":
            br.check_if_branch_exist(db, trie.root_hash, bad)
        elif e == "get_branch":
            br.get_branch(db, trie.root_hash, bad)
        elif e == "get_witness_for_key_prefix":
            br.get_witness_for_key_prefix(db, trie.root_hash, bad)
        elif e == "if_branch_valid":
            branch = tuple(db.values())[:4] or (b"\x02x",)
            br.if_branch_valid(branch, trie.root_hash, bad, b"claimed")
        else:
            return "harness-unknown-entry", e
    except Exception as x:  # noqa
        if ba.exc_matches(x, ev["exc"], exc):
            return "rejected", type(x).__name__
        return "wrongexc", type(x).__name__ + ": " + str(x)[:100]
    return "accepted", None


def read_table(trie, look, n):
    t = {}
    for i, (k, _) in enumerate(look):
        key = bits_to_bytes(k)
        try:
            got = trie.get(key) if (n + i) % 2 else trie[key]
            ex = trie.exists(key) if (n + i) % 3 else (key in trie)
            t[key] = (got, ex)
        except Exception as e:  # noqa
            t[key] = ("raised", type(e).__name__)
    return t


def want_table(look):
    return {bits_to_bytes(k): ((val(*v) if tuple(v) != (0, 0) else None), tuple(v) != (0, 0)) for k, v in look}


def replay_line(obj, ctx, opts):
    from .common import c18_relabel

    return c18_relabel(obj, replay_one(obj, ctx, opts), lambda o: replay_one(o, ctx, opts))


def replay_one(obj, ctx, opts):
    global RZ
    mod, branches, exc, rz = ctx
    RZ = rz
    h, st = obj["h"], obj["st"]
    out = []
    from .hexary import FaultyDict, InjectedWriteError

    db = FaultyDict()
    trie = mod.BinaryTrie(db)
    faulted = False
    for idx, ev in enumerate(h):
        is_last = idx == len(h) - 1
        if ev["a"] == "failwrite":
            # the j-th database write of this call raises
            faulted = True
            b_db, b_root = dict(db), trie.root_hash
            b_look = read_table(trie, st["look"], idx)
            db.arm(ev["j"])
            try:
                res = step(trie, dict(ev, a=ev["op"]), idx, exc)
            except Exception:  # noqa
                res = "raised:harness"
            finally:
                db.arm(0)
            if "InjectedWriteError" not in res:
                out.append(("mirror", "write-failure-not-reached", {"op": ev["op"], "j": ev["j"], "res": res}))
                if res == "ok":
                    break           # the real trie performed the operation: the model cannot follow
            else:
                if trie.root_hash != b_root:
                    out.append(("C12", "raising-call-changed-root", {"action": "failwrite", "op": ev["op"]}))
                elif read_table(trie, st["look"], idx) != b_look:
                    out.append(("C12", "raising-call-changed-contents", {"action": "failwrite", "op": ev["op"]}))
                if any(db.get(k) != v for k, v in b_db.items()):
                    out.append(("C12", "database-entry-removed-or-changed", {"action": "failwrite"}))
            continue
        if is_last:
            before_db, before_root = dict(db), trie.root_hash
            before_look = read_table(trie, st["look"], idx)
        if ev["a"] == "reject":
            b_db, b_root = dict(db), trie.root_hash
            verdict, detail = do_reject(trie, db, ev, idx, ctx)
            what = {"entry": ev["entry"], "arg": ev["arg"], "detail": detail}
            if verdict == "accepted":
                out.append(("C18", "ill-formed-call-not-refused", what))
            elif verdict != "rejected":
                out.append(("C18", "ill-formed-call-refused-with-the-wrong-exception", dict(what, expected=ev["exc"])))
            if db != b_db or trie.root_hash != b_root:
                out.append(("C18", "refused-call-changed-state", what))
            continue
        res = step(trie, ev, idx, exc)
        if not is_last:
            continue
        a = ev["a"]
        gone = [k for k, v in before_db.items() if db.get(k) != v]
        if gone:
            out.append(("C12", "database-entry-removed-or-changed", {"action": a, "n": len(gone)}))
        if res.startswith("raised"):
            out.append(("C12", "call-raised-unexpected-exception", {"action": a, "key": ev["k"], "res": res}))
        if res != "ok":
            if trie.root_hash != before_root:
                out.append(("C12", "raising-call-changed-root", {"action": a, "key": ev["k"]}))
            elif read_table(trie, st["look"], idx) != before_look:
                out.append(("C12", "raising-call-changed-contents", {"action": a, "key": ev["k"]}))
        if ev["ok"] and res == "override":
            # the model performs the call; a refusal is acceptable only where the property allows it
            # (a delete / delete_subtrie that would change nothing)
            changed = want_table(st["look"]) != {k: v for k, v in before_look.items()}
            if a == "set" or changed:
                out.append(("C12", "call-refused-although-the-model-map-accepts-it", {"action": a, "key": ev["k"]}))
        if not ev["ok"] and res == "ok":
            if a == "set":
                out.append(("C12", "conflicting-set-was-not-refused", {"key": ev["k"]}))
            # a delete the transcription refuses but the code performs as a no-op is fine (checked below)
    # C12 observables of the final state
    want = want_table(st["look"])
    real = read_table(trie, st["look"], len(h))
    if real != want:
        bad = [k for k in want if real.get(k) != want[k]]
        out.append(("C12", "get-or-exists-differs-from-the-map", {"keys": bad[:4], "real": [real[k] for k in bad[:4]],
                                                                  "want": [want[k] for k in bad[:4]]}))
    enc, rh = rz.node(st["root"])
    if trie.root_hash != rh:
        out.append(("C12", "root-hash-not-canonical", {"real": trie.root_hash, "expected": rh}))
    elif enc is not None and db.get(rh) != enc:
        out.append(("C12", "root-node-bytes-differ", {}))
    for k, v in db.items():
        if keccak(v) != k:
            out.append(("C12", "entry-not-content-addressed", {"key": k}))
            break
    if not st["root"] and trie.root_hash != BLANK_HASH:
        out.append(("C12", "empty-trie-not-blank-hash", {}))
    for p in st["pasts"]:
        prh = rz.node(p["r"])[1]
        old = mod.BinaryTrie(db, prh)
        got = read_table(old, p["look"], 1)
        if got != want_table(p["look"]):
            out.append(("C12", "earlier-root-reads-differently", {"root": prh}))
            break
    exp_db = rz.db(st["db"])
    if dict(db) != exp_db and not (faulted and all(dict.get(db, k) == v for k, v in exp_db.items())):
        out.append(("mirror", "db-differs-from-transcription", {"missing": len([k for k in exp_db if k not in db]),
                                                               "extra": len([k for k in db if k not in exp_db])}))
    if "br" in st:
        check_branches(trie, db, st, ctx, out)
    return out


def altered(node):
    outs = []
    if node[0] == 2:
        outs.append(node + b"!")
        outs.append(b"\x02" + bytes([node[1] ^ 1]) + node[2:])
    elif node[0] == 1:
        outs.append(b"\x01" + node[33:] + node[1:33])
        outs.append(node[:-1] + bytes([node[-1] ^ 1]))
    else:
        outs.append(node[:-1] + bytes([node[-1] ^ 1]))
        outs.append(node[:1] + bytes([node[1] ^ 1]) + node[2:])
    return outs


def check_branches(trie, db, st, ctx, out):
    mod, br, exc, rz = ctx
    rh = trie.root_hash
    nodes = {rz.node(j)[0] for j in st["nodes"]}
    bad = 0

    def fail(clause, detail):
        nonlocal bad
        bad += 1
        if bad <= 8:
            out.append(("C13", clause, detail))

    def validates(branch, key, claim):
        count("if_branch_valid")
        try:
            return br.if_branch_valid(branch, rh, key, claim) is True
        except Exception:  # noqa
            return False

    real_branches = {}
    values = sorted({val(*e["v"]) for e in st["br"] if tuple(e["v"]) != (0, 0)}) + [b"zz"]
    for e in st["br"]:
        key = bits_to_bytes(e["k"])
        truth = val(*e["v"]) if tuple(e["v"]) != (0, 0) else None
        count("get_branch")
        try:
            b = br.get_branch(db, rh, key)
        except exc.InvalidKeyError:
            if e["stored"] or not e["conflict"]:
                fail("get_branch-refused-a-key-it-must-serve", {"key": key, "stored": e["stored"]})
            if e["ok"]:
                out.append(("mirror", "get_branch-refuses-where-transcription-does-not", {"key": key}))
            continue
        except Exception as x:  # noqa
            fail("get_branch-raised", {"key": key, "exc": type(x).__name__})
            continue
        real_branches[key] = (b, truth)
        if not st["root"]:
            continue
        if any(n not in nodes for n in b):
            fail("branch-contains-a-node-not-in-the-trie", {"key": key})
        if not validates(b, key, truth):
            fail("branch-does-not-confirm-the-trie's-answer", {"key": key, "truth": truth})
        if e["ok"] and list(b) != [rz.node(j)[0] for j in e["b"]]:
            out.append(("mirror", "branch-differs-from-transcription", {"key": key}))
    # unforgeable: corrupted branches never validate an answer the trie does not give
    if st["root"]:
        for key, (b, truth) in real_branches.items():
            forged = []
            for i in range(len(b)):
                forged.append(("node-removed", b[:i] + b[i + 1:]))
                forged.append(("truncated", b[:i]))
                for alt in altered(b[i]):
                    forged.append(("node-altered", b[:i] + (alt,) + b[i + 1:]))
            for other, (ob, _) in real_branches.items():
                if other != key:
                    forged.append(("branch-of-another-key", ob))
            for how, fb in forged:
                if not fb:
                    continue
                for claim in [None] + values:
                    if claim == truth:
                        continue
                    if validates(fb, key, claim):
                        fail("corrupted-branch-validates-a-wrong-answer",
                             {"key": key, "how": how, "claim": claim, "truth": truth})
            # and the genuine branch validates nothing but the truth
            for claim in [None] + values:
                if claim != truth and validates(b, key, claim):
                    fail("genuine-branch-validates-a-wrong-answer", {"key": key, "claim": claim, "truth": truth})
    for e in st["ex"]:
        count("check_if_branch_exist")
        p = bits_to_bytes(e["p"])
        try:
            got = br.check_if_branch_exist(db, rh, p)
        except Exception as x:  # noqa
            got = "raised " + type(x).__name__
        if got is not e["e"]:
            fail("check_if_branch_exist-wrong", {"prefix": p, "got": got, "want": e["e"]})
    count("get_trie_nodes")
    try:
        # against a database that holds nothing the answer is empty; it must not colour the next answer
        if br.get_trie_nodes({}, rh) != ():
            fail("get_trie_nodes-invents-nodes-for-an-empty-database", {})
        if st["root"]:
            part = {rh: db[rh]}
            if set(br.get_trie_nodes(part, rh)) != {db[rh]}:
                fail("get_trie_nodes-wrong-on-a-database-holding-only-the-root", {})
        tn = br.get_trie_nodes(db, rh)
        if set(tn) != nodes:
            fail("get_trie_nodes-not-exactly-the-reachable-nodes", {"got": len(set(tn)), "want": len(nodes)})
    except Exception as x:  # noqa
        fail("get_trie_nodes-raised", {"exc": type(x).__name__})
    # values are opaque: a stored value that happens to be the hash of a node in the same database (a
    # root kept as a value, an account pointing at its storage trie) is not a child.  One key of a
    # copy of the trie gets the root hash as its value; the nodes of the new trie are computed here
    # from the type bytes alone
    stored = [bits_to_bytes(e["k"]) for e in st["br"] if e["stored"]]
    if stored and st["root"]:
        count("get_trie_nodes:value-is-a-node-hash")
        try:
            db2 = dict(db)
            t2 = mod.BinaryTrie(db2, rh)
            t2.set(stored[0], rh)
            reach, todo = set(), [t2.root_hash]
            while todo:
                h = todo.pop()
                body = db2[h]
                reach.add(body)
                if body[0] == 1:
                    todo += [body[1:33], body[33:65]]
                elif body[0] == 0:
                    todo.append(body[-32:])
            if set(br.get_trie_nodes(db2, t2.root_hash)) != reach:
                fail("get_trie_nodes-follows-a-value-that-is-a-node-hash", {"key": stored[0]})
            w = br.get_witness_for_key_prefix(db2, t2.root_hash, b"")
            if any(n not in reach for n in w):
                fail("witness-contains-a-node-not-in-the-trie", {"prefix": b"", "value-is-a-node-hash": True})
        except Exception as x:  # noqa
            fail("get_trie_nodes-raised", {"exc": type(x).__name__, "value-is-a-node-hash": True})
    look = want_table(st["look"])
    for e in st["wit"]:
        count("get_witness_for_key_prefix")
        p = bits_to_bytes(e["p"])
        try:
            w = br.get_witness_for_key_prefix(db, rh, p)
        except exc.InvalidKeyError:
            if not e["past"]:
                fail("witness-refused-a-prefix-that-does-not-run-past-a-leaf", {"prefix": p})
            continue
        except Exception as x:  # noqa
            fail("witness-raised", {"prefix": p, "exc": type(x).__name__})
            continue
        if any(n not in nodes for n in w):
            fail("witness-contains-a-node-not-in-the-trie", {"prefix": p})
        wdb = {keccak(n): n for n in w}
        for k, (v, _) in look.items():
            if k[:len(p)] != p:
                continue
            try:
                got = mod.BinaryTrie(wdb, rh).get(k)
            except KeyError:
                got = "insufficient"
            if got != v:
                fail("witness-insufficient-for-a-key-under-the-prefix", {"prefix": p, "key": k, "got": got, "want": v})
                break
        if e["ok"] and set(w) != {rz.node(j)[0] for j in e["w"]}:
            out.append(("mirror", "witness-differs-from-transcription", {"prefix": p}))


def stats(obj, ctx):
    tags = [("calls:" + k, v) for k, v in COUNTS.items()]
    COUNTS.clear()
    h, st = obj["h"], obj["st"]
    if any(e["a"] == "failwrite" for e in h[:-1]):
        tags.append("failed-write-in-mid-history")
    if h:
        tags.append("last:" + h[-1]["a"] + ("" if h[-1]["ok"] else "-refused"))
    if any(e["a"] == "reject" for e in h[:-1]):
        tags.append("rejected-call-in-mid-history")

    def kinds(j, acc):
        if j:
            acc.add(j[0])
            for c in j[1:]:
                if isinstance(c, list) and c and isinstance(c[0], str):
                    kinds(c, acc)
        return acc
    ks = kinds(st["root"], set())
    for k in ks:
        tags.append("has-" + {"L": "leaf", "K": "kv", "B": "branch"}[k])
    if "br" in st and any(not e["ok"] for e in st["br"]):
        tags.append("branch-refused")
    if "wit" in st and any(not e["ok"] for e in st["wit"]):
        tags.append("witness-refused")
    return tags
