"""Code -> specification for the sparse Merkle tree: run the real code on generated histories
with key sizes up to 32 bytes and log one event per call, with the real tree decoded back into
the collapsed normal form of SMT.tla."""
import importlib

from eth_hash.auto import keccak

from .realize import unval, val

TAGS = [0x61, 0x80, 0xC8]


def bits_of(key):
    return [(b >> (7 - i)) & 1 for b in key for i in range(8)]


class Decoder:
    def __init__(self, db, default, depth):
        self.db = db
        self.defs = [keccak(default)]
        for _ in range(depth):
            self.defs.append(keccak(self.defs[-1] + self.defs[-1]))
        self.depth = depth
        self.budget = 0
        self.broken = False

    def node(self, h, height):
        # a broken tree may not contain the default subtrees where they belong: never walk more
        # than a bounded number of nodes (the poison leaf makes the trace fail its clauses)
        self.budget += 1
        if self.budget > 8000:
            self.broken = True
            return ["V", 238, 6]
        if h == self.defs[height]:
            return ["D", height]
        body = self.db.get(h)
        if body is None:
            return ["V", 238, 7]          # unreadable: poison
        if height == 0:
            try:
                t, n = unval(body)
            except Exception:  # noqa
                return ["V", 238, 8]
            return ["V", t, n]
        if len(body) != 64:
            return ["V", 238, 9]
        return ["P", self.node(body[:32], height - 1), self.node(body[32:], height - 1)]

    def top(self, h, height):
        """decode one subtree, with its own node budget"""
        self.budget = 0
        return self.node(h, height)

    def seq(self, hashes):
        """hashes root -> leaf: element i (0-based) is a node of height depth-1-i"""
        return [self.top(h, self.depth - 1 - i) for i, h in enumerate(hashes)]


def near(rng, key):
    """a key adversarially close to / far from `key`"""
    n = len(key) * 8
    x = int.from_bytes(key, "big")
    how = rng.randrange(5)
    if how == 0:
        x ^= 1 << rng.randrange(n)                          # one bit
    elif how == 1:
        x ^= (1 << rng.randrange(1, n + 1)) - 1             # complement from some bit downward
    elif how == 2:
        x = (x + rng.choice([1, -1])) % (1 << n)             # neighbour (long carry chains)
    elif how == 3:
        x ^= ((1 << n) - 1) ^ ((1 << rng.randrange(n)) - 1)  # complement of the upper part
    else:
        x = rng.getrandbits(n)
    return x.to_bytes(len(key), "big")


class Runner:
    """executes calls on a real SparseMerkleTree / SparseMerkleProof and records one event per call"""

    def __init__(self, mod, ksize, default, pool):
        self.smt = importlib.import_module("trie.smt")
        self.exc = importlib.import_module("trie.exceptions")
        self.ksize, self.default, self.pool = ksize, default, pool
        self.depth = ksize * 8
        self.tree = self.smt.SparseMerkleTree(key_size=ksize, default=default)
        self.initial = self.tree.root_hash
        self.dec = Decoder(self.tree.db, default, self.depth)
        self.proof = None
        self.ev = []
        self.calls = []

    def observe(self):
        tree, smt, dec, depth = self.tree, self.smt, self.dec, self.depth
        st = {"root": dec.top(tree.root_hash, depth), "look": [], "isinitial": tree.root_hash == self.initial,
              "pvalue": [0, 0], "pbranch": [], "prootok": True}
        for k in self.pool:
            try:
                v = tree.get(k)
                br = tree.branch(k)
                st["look"].append({"k": bits_of(k), "g": "val", "v": list(unval(v)), "br": dec.seq(br),
                                   "calc": smt.calc_root(k, v, br) == tree.root_hash and tree.exists(k)})
            except KeyError:
                st["look"].append({"k": bits_of(k), "g": "KeyError", "v": [0, 0], "br": [],
                                   "calc": not tree.exists(k)})
        if self.proof is not None:
            st["pvalue"] = list(unval(self.proof.value))
            st["pbranch"] = dec.seq(self.proof.branch)
            st["prootok"] = self.proof.root_hash == tree.root_hash
        return st

    def track(self, k):
        try:
            self.proof = self.smt.SparseMerkleProof(k, self.tree.get(k), self.tree.branch(k))
        except KeyError:
            return False
        self.calls.append(["track", k.hex(), "", 0])
        self.ev.append({"a": "track", "k": bits_of(k), "v": [0, 0], "m": 0, "upd": [], "refused": False,
                        "proofsame": True, "st": self.observe()})
        return True

    def write(self, a, k, v, m):
        tree, proof, exc = self.tree, self.proof, self.exc
        self.calls.append([a, k.hex(), v.hex(), m])
        try:
            upd = tree.set(k, v) if a == "set" else tree.delete(k)
        except Exception:  # noqa
            upd = ()                                # a raising write: reported through C14.updlist
        refused, same = False, True
        if proof is not None:
            before = (proof.value, tuple(proof.branch))
            try:
                proof.update(k, v, tuple(upd[:m]))
            except exc.ValidationError:
                refused = True
                same = (proof.value, tuple(proof.branch)) == before
            except Exception:  # noqa
                refused, same = True, False         # wrong exception class: reported through C15.unchanged
            if refused:
                try:
                    proof.update(k, v, tuple(upd))
                except Exception:  # noqa
                    same = False                    # even the complete list is refused
        self.ev.append({"a": a, "k": bits_of(k), "v": list(unval(v)), "m": m, "upd": self.dec.seq(upd),
                        "refused": refused, "proofsame": same, "st": self.observe()})

    def trace(self):
        plan = {"ksize": self.ksize, "default": self.default.hex(), "pool": [k.hex() for k in self.pool],
                "calls": self.calls}
        if self.dec.broken:
            # the database does not hold a sparse tree over this default (default subtrees are not where
            # they belong): not expressible as a trace, reported as it is
            return {"dflt": list(unval(self.default)), "depth": self.depth, "ev": [], "broken": True,
                    "calls": [[e["a"], e["k"], e["v"]] for e in self.ev], "plan": plan}
        return {"dflt": list(unval(self.default)), "depth": self.depth, "ev": self.ev, "plan": plan}


def gen_trace(mod, rng, ksize):
    default = rng.choice([b"", b"", val(100, 3)])
    depth = ksize * 8
    base = rng.getrandbits(depth).to_bytes(ksize, "big") if rng.random() < 0.7 else \
        rng.choice([b"\x00" * ksize, b"\xff" * ksize, b"\x7f" + b"\xff" * (ksize - 1)])
    pool = [base]
    for _ in range(rng.randint(1, 4)):
        pool.append(near(rng, rng.choice(pool)))
    pool = sorted(set(pool))
    r = Runner(mod, ksize, default, pool)
    for _ in range(rng.randint(2, 10)):
        x = rng.random()
        k = rng.choice(pool)
        if r.proof is None and x < 0.25:
            r.track(k)
            continue
        if x < 0.75:
            a, v = "set", rng.choice([b"", default, val(rng.choice(TAGS), rng.choice([1, 2, 33]))])
        else:
            a, v = "delete", default
        m = rng.choice([depth, rng.randrange(depth + 1), rng.randrange(depth + 1), max(0, depth - 1)])
        if r.proof is not None and k != r.proof.key and rng.random() < 0.5:
            # around the first differing bit: exactly enough, one short, one more
            xor = int.from_bytes(k, "big") ^ int.from_bytes(r.proof.key, "big")
            bp = depth - xor.bit_length()
            m = max(0, min(depth, bp + rng.choice([0, 1, 2])))
        r.write(a, k, v, m)
    return r.trace()


def rerun_trace(mod, trace):
    """re-execute the calls of a recorded trace on the current code (./check --replay)"""
    plan = trace["plan"]
    r = Runner(mod, plan["ksize"], bytes.fromhex(plan["default"]), [bytes.fromhex(k) for k in plan["pool"]])
    for a, k, v, m in plan["calls"]:
        if a == "track":
            r.track(bytes.fromhex(k))
        else:
            r.write(a, bytes.fromhex(k), bytes.fromhex(v), m)
    return r.trace()


def consts(traces):
    keys, vals, dflts, trunc = set(), set(), set(), set()
    depth = traces[0]["depth"]
    for t in traces:
        dflts.add(tuple(t["dflt"]))
        for e in t["ev"]:
            keys.add(tuple(e["k"]))
            trunc.add(e["m"])
            if tuple(e["v"]) != (0, 0):
                vals.add(tuple(e["v"]))
            for x in e["st"]["look"]:
                keys.add(tuple(x["k"]))

    def seq(k):
        return "<<" + ",".join(map(str, k)) + ">>"

    def rec(v):
        return f"[tag |-> {v[0]}, len |-> {v[1]}]"
    vals = vals or {(1, 1)}
    return ("---- MODULE TraceConsts_SMT ----\n"
            "TKeys == {" + ", ".join(seq(k) for k in sorted(keys)) + "}\n"
            "TVals == {" + ", ".join(rec(v) for v in sorted(vals)) + "}\n"
            "TDefaults == {" + ", ".join(rec(v) for v in sorted(dflts)) + "}\n"
            "TTrunc == {" + ", ".join(str(m) for m in sorted(trunc)) + "}\n"
            f"TDepth == {depth}\n====\n")
