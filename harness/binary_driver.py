"""Code -> specification for the binary trie: run the real code on generated histories over keys of
1-4 arbitrary bytes and log one event per call with the real trie decoded from its database."""
import importlib

from eth_hash.auto import keccak

from .realize import unval, val
from .smt_driver import bits_of

BLANK = keccak(b"")


def unpack_keypath(b):
    bits = [(x >> (7 - i)) & 1 for x in b for i in range(8)]
    if bits[0] == 1:
        bits = bits[4:]
    ll = 2 * bits[2] + bits[3]
    return bits[4 + ((4 - ll) % 4):]


def decode(db, h):
    if h == BLANK:
        return []
    node = db.get(h)
    if node is None:
        return ["L", 238, 7]
    if node[0] == 2:
        try:
            t, n = unval(node[1:])
        except Exception:  # noqa
            t, n = 238, 8
        return ["L", t, n]
    if node[0] == 1:
        return ["B", decode(db, node[1:33]), decode(db, node[33:])]
    return ["K", unpack_keypath(node[1:-32]), decode(db, node[-32:])]


ALPHA = [0x00, 0x01, 0x10, 0x80, 0xFF, 0x7F]


class Runner:
    """executes calls on a real BinaryTrie and records one event per call"""

    def __init__(self, mod, probes):
        self.exc = importlib.import_module("trie.exceptions")
        self.db = {}
        self.trie = mod.BinaryTrie(self.db)
        self.probes = probes
        self.ev = []
        self.calls = []
        self.roots = [self.trie.root_hash]      # every root the trie had (targets of "checkout")

    def apply(self, a, k, v):
        n = len(self.ev)
        trie, db = self.trie, self.db
        self.calls.append([a, k.hex(), v.hex()])
        before = dict(db)
        try:
            if a == "set":
                if n % 2:
                    trie.set(k, v)
                else:
                    trie[k] = v
            elif a == "del":
                [trie.delete, trie.__delitem__, lambda key: trie.set(key, b"")][n % 3](k)
            elif a == "checkout":
                # v carries the root hash the trie is pointed back at
                if n % 2 or v not in db:
                    trie.root_hash = v
                else:
                    trie.root_node = db[v]
            else:
                trie.delete_subtrie(k)
            ok = True
        except self.exc.NodeOverrideError:
            ok = False
        except Exception:  # noqa
            ok = None            # an unexpected exception: a refusal of the wrong type (clause C12.refusal-type)
        look = []
        for p in self.probes:
            try:
                got = trie.get(p) if n % 2 else trie[p]
                if (got is not None) != (trie.exists(p) if n % 3 else (p in trie)):
                    got = b"\xee" * 3
                look.append([bits_of(p), list(unval(got)) if got is not None else [0, 0]])
            except Exception:  # noqa
                look.append([bits_of(p), [238, 4]])
        gone = len([h for h, body in before.items() if db.get(h) != body])
        self.roots.append(trie.root_hash)
        ck = a == "checkout"
        self.ev.append({"a": a, "k": [] if ck else bits_of(k), "v": [0, 0] if ck else list(unval(v)),
                        "root": decode(db, v) if ck else [], "ok": bool(ok), "crash": ok is None,
                        "st": {"root": decode(db, trie.root_hash), "look": look, "gone": gone}})

    def trace(self):
        return {"ev": self.ev, "plan": {"probes": [p.hex() for p in self.probes], "calls": self.calls}}


RIGHT_COMB = [0x00, 0x80, 0xC0, 0xE0, 0xF0, 0xF8, 0xFC, 0xFE, 0xFF]


def gen_comb_trace(mod, rng):
    """nine keys P+b whose last bytes make every one of the eight bit levels below P a BRANCH node
    along the all-ones (or, mirrored, the all-zeros) path: a lookup of the proper prefix P then ends
    exactly at a branch that is followed by branches only, down to a leaf"""
    prefix = bytes(rng.choice(ALPHA) for _ in range(rng.choice([1, 1, 2])))
    lasts = RIGHT_COMB if rng.random() < 0.5 else [b ^ 0xFF for b in RIGHT_COMB]
    keys = [prefix + bytes([b]) for b in lasts]
    rng.shuffle(keys)
    probes = sorted(set(keys) | {prefix, prefix + b"\xff\x00", prefix[:-1] + bytes([prefix[-1] ^ 1])})
    r = Runner(mod, probes)
    for k in keys:
        r.apply("set", k, val(rng.choice([0x61, 0x80, 0xC8]), rng.choice([1, 2, 40])))
    for _ in range(rng.randint(1, 6)):
        x = rng.random()
        if x < 0.4:
            r.apply("set", rng.choice(probes), val(0x62, 2))
        elif x < 0.8:
            r.apply("del", rng.choice(probes), b"")
        else:
            r.apply("delsub", rng.choice(probes), b"")
    return r.trace()


def gen_trace(mod, rng):
    if rng.random() < 0.12:
        return gen_comb_trace(mod, rng)
    pool = set()
    for _ in range(rng.choice([3, 4, 6])):
        k = bytes(rng.choice(ALPHA) for _ in range(rng.choice([1, 1, 2, 2, 3, 4])))
        pool.add(k)
        if rng.random() < 0.5:
            pool.add(k[:-1] + bytes([k[-1] ^ rng.choice([1, 0x80, 0x10])]))
        if rng.random() < 0.5 and len(k) > 1:
            i = rng.randrange(len(k) - 1)            # diverge at the last bit of an inner byte
            pool.add(k[:i] + bytes([k[i] ^ 1]) + k[i + 1:])
        if rng.random() < 0.3:
            pool.add(k + bytes([rng.choice(ALPHA)]))
        if rng.random() < 0.2:
            pool.add(bytes(rng.randrange(256) for _ in range(rng.choice([1, 2, 3]))))
    pool = sorted(pool)
    probes = sorted(set(pool) | {k[:-1] for k in pool if len(k) > 1} | {k + b"\x00" for k in pool[:3]})
    r = Runner(mod, probes)
    for _ in range(rng.randint(3, 24)):
        x = rng.random()
        if x < 0.55:
            r.apply("set", rng.choice(probes if rng.random() < 0.2 else pool),
                    val(rng.choice([0x61, 0x80, 0xC8]), rng.choice([1, 2, 40])))
        elif x < 0.8:
            r.apply("del", rng.choice(probes), b"")
        elif x < 0.88:
            olds = sorted(set(r.roots) - {r.trie.root_hash})
            if olds:
                r.apply("checkout", b"", rng.choice(olds))
        else:
            r.apply("delsub", rng.choice(probes), b"")
    return r.trace()


def rerun_trace(mod, trace):
    """re-execute the calls of a recorded trace on the current code (./check --replay)"""
    plan = trace["plan"]
    r = Runner(mod, [bytes.fromhex(p) for p in plan["probes"]])
    for a, k, v in plan["calls"]:
        r.apply(a, bytes.fromhex(k), bytes.fromhex(v))
    return r.trace()


def consts(traces):
    keys, look, vals = set(), set(), set()
    for t in traces:
        for e in t["ev"]:
            k = tuple(e["k"])
            look.add(k)
            if e["a"] == "set":
                keys.add(k)
                vals.add(tuple(e["v"]))
            for kk, _ in e["st"]["look"]:
                look.add(tuple(kk))

    def seq(k):
        return "<<" + ",".join(map(str, k)) + ">>"
    vals = vals or {(1, 1)}
    keys = keys or {tuple([0] * 8)}
    return ("---- MODULE TraceConsts_Binary ----\n"
            "TKeys == {" + ", ".join(seq(k) for k in sorted(keys)) + "}\n"
            "TLook == TKeys \\cup {" + ", ".join(seq(k) for k in sorted(look)) + "}\n"
            "TVals == {" + ", ".join(f"[tag |-> {a}, len |-> {b}]" for a, b in sorted(vals)) + "}\n"
            "====\n")
