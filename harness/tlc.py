"""Running TLC: exhaustive checking with streamed behaviour emission, simulation,
and batch trace validation.  All runs happen in a scratch copy of /verif/spec."""
import glob
import json
import os
import re
import shutil
import subprocess
import threading
import time

from .common import SPEC, MachineryError, scratch

JAR = "/opt/veriftools/tla/tla2tools.jar:/opt/veriftools/tla/CommunityModules-deps.jar"


class TlcResult:
    def __init__(self):
        self.generated = 0
        self.distinct = 0
        self.depth = 0
        self.violated = None       # name of violated invariant / property
        self.errors = []           # other "Error:" lines
        self.trace = []            # raw text of the counterexample
        self.emitted = 0
        self.traces = 0
        self.wall = 0.0
        self.finished = False
        self.timed_out = False
        self.tail = []

    def ok(self):
        return self.finished and not self.violated and not self.errors


_workdir = None


_wd_lock = threading.Lock()


def workdir():
    """scratch copy of the specification directory"""
    global _workdir
    with _wd_lock:
        if _workdir is None:
            d = os.path.join(scratch(), "spec")
            os.makedirs(d, exist_ok=True)
            for f in glob.glob(os.path.join(SPEC, "*.tla")) + glob.glob(os.path.join(SPEC, "*.cfg")):
                shutil.copy(f, d)
            _workdir = d
    return _workdir


_run_id = [0]


def fresh_workdir(tag):
    """a private copy of the specification directory (for runs that generate modules)"""
    src = workdir()
    with _lock:
        _run_id[0] += 1
        tag = f"{tag}_{_run_id[0]}"
    d = os.path.join(scratch(), f"spec_{tag}")
    os.makedirs(d, exist_ok=True)
    for f in glob.glob(os.path.join(src, "*.tla")) + glob.glob(os.path.join(src, "*.cfg")):
        shutil.copy(f, d)
    return d


_lock = threading.Lock()


def run(module, cfg, *, workers=16, on_emit=None, timeout=3600, simulate=None, depth=None,
        env=None, deque=False, seed=None, cfg_text=None, heap="6g", extra=(), wd=None):
    """Run TLC on <module>.tla with <cfg> (a file name in spec/, or cfg_text).
    Lines printed by the spec through PrintT(ToJson(..)) -- they start with a
    double quote -- are decoded and handed to on_emit(obj)."""
    wd = wd or workdir()
    with _lock:
        _run_id[0] += 1
        rid = _run_id[0]
    meta = os.path.join(scratch(), f"meta{rid}")
    if cfg_text is not None:
        cfg = f"gen_{rid}.cfg"
        with open(os.path.join(wd, cfg), "w") as fh:
            fh.write(cfg_text)
    cmd = ["java", "-XX:+UseSerialGC" if workers == 1 else "-XX:+UseParallelGC", f"-Xmx{heap}", "-Xss64m"]
    if workers == 1:
        cmd += ["-XX:ActiveProcessorCount=2", "-Xshare:auto"]
    if deque:
        cmd.append("-Dtlc2.tool.queue.IStateQueue=StateDeque")
    cmd += ["-cp", JAR, "tlc2.TLC", "-workers", str(workers), "-metadir", meta,
            "-noGenerateSpecTE", "-config", cfg]
    if simulate is not None:
        cmd += ["-simulate", f"num={simulate}"]
        if depth:
            cmd += ["-depth", str(depth)]
    if seed is not None:
        cmd += ["-seed", str(seed)]
    cmd += list(extra) + [module + ".tla"]
    e = dict(os.environ)
    e.pop("JAVA_TOOL_OPTIONS", None)
    if env:
        e.update(env)
    res = TlcResult()
    t0 = time.time()
    proc = subprocess.Popen(cmd, cwd=wd, env=e, stdout=subprocess.PIPE, stderr=subprocess.STDOUT,
                            text=True, bufsize=1 << 20)
    timer = threading.Timer(timeout, lambda: (setattr(res, "timed_out", True), proc.kill()))
    timer.start()
    in_trace = False
    try:
        for line in proc.stdout:
            if line.startswith('"'):
                res.emitted += 1
                if on_emit is not None:
                    on_emit(line)
                continue
            line = line.rstrip("\n")
            res.tail.append(line)
            if len(res.tail) > 400:
                del res.tail[:200]
            m = re.match(r"(\d+) states generated, (\d+) distinct states found", line)
            if m:
                res.generated, res.distinct = int(m.group(1)), int(m.group(2))
            m = re.match(r"Progress: (\d+) states checked, (\d+) traces generated", line)
            if m:
                res.generated, res.traces = int(m.group(1)), int(m.group(2))
            if line.startswith("The number of states generated:"):
                res.finished = True
            m = re.match(r"The depth of the complete state graph search is (\d+)", line)
            if m:
                res.depth = int(m.group(1))
            m = re.match(r"Error: (Invariant|Action property|Temporal properties?) ?(\S*) (is|were) violated", line)
            if m:
                res.violated = m.group(2) or "temporal"
                in_trace = True
                continue
            if line.startswith("Error:"):
                if "The behavior up to this point" in line or "The following behavior" in line:
                    in_trace = True
                    continue
                res.errors.append(line)
                in_trace = True
                continue
            if "Model checking completed" in line or line.startswith("Finished in"):
                res.finished = True
                in_trace = False
            if in_trace and len(res.trace) < 4000:
                res.trace.append(line)
    finally:
        timer.cancel()
        proc.wait()
        shutil.rmtree(meta, ignore_errors=True)
    res.wall = time.time() - t0
    if res.timed_out:
        res.finished = False
    return res


def parse_emit(line):
    """`"<json-escaped>"` as printed by PrintT(ToJson(x)) -> python object"""
    return json.loads(json.loads(line))


def require_clean(res, what):
    """A violation or error inside the *model* (not against the implementation)
    means the specification is wrong: machinery failure, never a verdict."""
    if res.timed_out:
        raise MachineryError(f"{what}: TLC timed out after {res.wall:.0f}s")
    if res.violated:
        raise MachineryError(f"{what}: the specification itself violates {res.violated}:\n"
                             + "\n".join(res.trace[:60]))
    if res.errors or not res.finished:
        raise MachineryError(f"{what}: TLC failed: {res.errors[:3]}\n" + "\n".join(res.tail[-25:]))
