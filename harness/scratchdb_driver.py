"""Code -> specification for ScratchDB: generated histories on arbitrary byte keys / values."""
import importlib


class _E(Exception):
    pass


class _B(BaseException):
    pass


class Runner:
    """executes calls on a real ScratchDB and records one event per call"""

    def __init__(self, mod, keys, vals, wrapped):
        dbmod = importlib.import_module("trie.utils.db")
        self.keys, self.vals = keys, vals
        self.name = {k: "k" + k.hex() for k in keys}
        self.vname = {v: "v" + v.hex() for v in vals}
        self.wrapped = dict(wrapped)
        self.s = dbmod.ScratchDB(self.wrapped)
        self.cm = None
        self.w0 = [[self.name[k], self.vname[v]] for k, v in wrapped.items()]
        self.ev = []
        self.calls = []

    def apply(self, a, k=b"", v=b"", d=False, kind=""):
        s, name, vname = self.s, self.name, self.vname
        self.calls.append([a, k.hex(), v.hex(), d, kind])
        ev = {"a": a, "k": name.get(k, ""), "v": vname.get(v, "") if a == "write" else "", "d": d, "kind": kind}
        swallowed = False
        if a == "enter":
            self.cm = s.batch_commit(do_deletes=d)
            self.cm.__enter__()
        elif a == "exit":
            self.cm.__exit__(None, None, None)
            self.cm = None
        elif a == "raise":
            e = _E() if kind == "Exception" else _B()
            try:
                swallowed = bool(self.cm.__exit__(type(e), e, None))
            except (_E, _B):
                pass
            self.cm = None
        elif a == "write":
            s[k] = v
        else:
            del s[k]
        read, has = [], []
        for kk in self.keys:
            try:
                got = s[kk]
                read.append([name[kk], vname.get(got, "unknown")])
            except KeyError:
                read.append([name[kk], "KeyError"])
            has.append([name[kk], kk in s])
        ev["st"] = {"wrapped": [[name[kk], vname.get(vv, "unknown")] for kk, vv in self.wrapped.items()], "read": read,
                    "has": has, "buffered": len(s.cache), "swallowed": swallowed}
        self.ev.append(ev)

    def trace(self):
        return {"w": self.w0, "ev": self.ev, "keys": sorted(self.name.values()), "vals": sorted(self.vname.values()),
                "plan": {"keys": [k.hex() for k in self.keys], "vals": [v.hex() for v in self.vals],
                         "wrapped": [[k.hex(), v.hex()] for k, v in
                                     [(bytes.fromhex(a[1:]), bytes.fromhex(b[1:])) for a, b in self.w0]],
                         "calls": self.calls}}


def gen_trace(mod, rng):
    keys = [bytes(rng.randrange(256) for _ in range(rng.choice([1, 2, 32]))) for _ in range(rng.randint(2, 6))]
    keys = list(dict.fromkeys(keys))
    vals = [bytes(rng.randrange(256) for _ in range(rng.choice([1, 5, 60]))) for _ in range(2)] + [b"", b"\x00"]
    vals = list(dict.fromkeys(vals))
    wrapped = {k: rng.choice(vals) for k in keys if rng.random() < 0.5}
    r = Runner(mod, keys, vals, wrapped)
    for _ in range(rng.randint(3, 25)):
        x = rng.random()
        if r.cm is None and x < 0.2:
            r.apply("enter", d=rng.random() < 0.5)
        elif r.cm is not None and x < 0.15:
            r.apply("exit")
        elif r.cm is not None and x < 0.3:
            r.apply("raise", kind=rng.choice(["Exception", "BaseException"]))
        elif x < 0.7:
            r.apply("write", rng.choice(keys), rng.choice(vals))
        else:
            r.apply("delete", rng.choice(keys))
    return r.trace()


def rerun_trace(mod, trace):
    """re-execute the calls of a recorded trace on the current code (./check --replay)"""
    plan = trace["plan"]
    r = Runner(mod, [bytes.fromhex(k) for k in plan["keys"]], [bytes.fromhex(v) for v in plan["vals"]],
               {bytes.fromhex(k): bytes.fromhex(v) for k, v in plan["wrapped"]})
    for a, k, v, d, kind in plan["calls"]:
        r.apply(a, bytes.fromhex(k), bytes.fromhex(v), d, kind)
    return r.trace()


def consts(traces):
    keys = sorted({k for t in traces for k in t["keys"]})
    vals = sorted({v for t in traces for v in t["vals"]} | {"unknown"})
    q = lambda xs: "{" + ", ".join('"%s"' % x for x in xs) + "}"  # noqa: E731
    return ("---- MODULE TraceConsts_ScratchDB ----\nTKeys == " + q(keys) + "\nTVals == " + q(vals) +
            '\nTExits == {"Exception", "BaseException"}\n====\n')
