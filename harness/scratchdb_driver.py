"""Code -> specification for ScratchDB: generated histories on arbitrary byte keys / values."""
import importlib


class _E(Exception):
    pass


class _B(BaseException):
    pass


def gen_trace(mod, rng):
    dbmod = importlib.import_module("trie.utils.db")
    keys = [bytes(rng.randrange(256) for _ in range(rng.choice([1, 2, 32]))) for _ in range(rng.randint(2, 6))]
    vals = [bytes(rng.randrange(256) for _ in range(rng.choice([1, 5, 60]))) for _ in range(2)] + [b"", b"\x00"]
    name = {k: "k" + k.hex() for k in keys}
    vname = {v: "v" + v.hex() for v in vals}
    wrapped = {k: rng.choice(vals) for k in keys if rng.random() < 0.5}
    s = dbmod.ScratchDB(wrapped)
    cm = None
    allkeys = keys
    trace = {"w": [[name[k], vname[v]] for k, v in wrapped.items()], "ev": []}
    for _ in range(rng.randint(3, 25)):
        x = rng.random()
        ev = {"a": "", "k": "", "v": "", "d": False, "kind": ""}
        swallowed = False
        if cm is None and x < 0.2:
            ev.update(a="enter", d=rng.random() < 0.5)
            cm = s.batch_commit(do_deletes=ev["d"])
            cm.__enter__()
        elif cm is not None and x < 0.15:
            ev.update(a="exit")
            cm.__exit__(None, None, None)
            cm = None
        elif cm is not None and x < 0.3:
            kind = rng.choice(["Exception", "BaseException"])
            ev.update(a="raise", kind=kind)
            e = _E() if kind == "Exception" else _B()
            try:
                swallowed = bool(cm.__exit__(type(e), e, None))
            except (_E, _B):
                pass
            cm = None
        elif x < 0.7:
            k, v = rng.choice(keys), rng.choice(vals)
            ev.update(a="write", k=name[k], v=vname[v])
            s[k] = v
        else:
            k = rng.choice(keys)
            ev.update(a="delete", k=name[k])
            del s[k]
        read, has = [], []
        for k in keys:
            try:
                got = s[k]
                read.append([name[k], vname.get(got, "unknown")])
            except KeyError:
                read.append([name[k], "KeyError"])
            has.append([name[k], k in s])
        ev["st"] = {"wrapped": [[name[k], vname.get(v, "unknown")] for k, v in wrapped.items()], "read": read, "has": has,
                    "buffered": len(s.cache), "swallowed": swallowed}
        trace["ev"].append(ev)
    trace["keys"] = sorted(name.values())
    trace["vals"] = sorted(vname.values())
    return trace


def consts(traces):
    keys = sorted({k for t in traces for k in t["keys"]})
    vals = sorted({v for t in traces for v in t["vals"]} | {"unknown"})
    q = lambda xs: "{" + ", ".join('"%s"' % x for x in xs) + "}"  # noqa: E731
    return ("---- MODULE TraceConsts_ScratchDB ----\nTKeys == " + q(keys) + "\nTVals == " + q(vals) +
            '\nTExits == {"Exception", "BaseException"}\n====\n')
