"""Replaying behaviours of FogWalk.tla: a real HexaryTrie, a real HexaryTrieFog and a real
TrieFrontierCache driven through the documented walking loop, with mutations in between.
The verdict (C09) is computed from the real execution alone: after the emitted behaviour the
real walk is continued to completion and judged against the real history of the contents."""
import importlib

from .realize import key_of, unval, val

COUNTS = {}
MAX_STEPS = 400


def count(k, n=1):
    COUNTS[k] = COUNTS.get(k, 0) + n


def make_context(mod):
    return (mod, importlib.import_module("trie.fog"), importlib.import_module("trie.exceptions"))


def vrep(value):
    """value of a node as the model writes it, or a marker for anything else"""
    try:
        b = bytes(value)
        if b == b[:1] * len(b):
            return tuple(unval(b))
        return ("raw", b.hex())
    except Exception:  # noqa
        return ("not-bytes", repr(value)[:80])


class Walk:
    def __init__(self, ctx, init):
        mod, fogmod, exc = ctx
        self.exc = exc
        self.db = {}
        self.trie = mod.HexaryTrie(self.db, prune=init["prune"])
        self.contents = {}
        for k, v in sorted(init["pairs"]):
            self.trie[key_of(k)] = val(*v)
            self.contents[tuple(k)] = tuple(v)
        self.start = dict(self.contents)
        self.changed = set()
        self.ever = {(k, v) for k, v in self.contents.items()}
        self.fog = fogmod.HexaryTrieFog()
        self.cache = fogmod.TrieFrontierCache() if init["cache"] else None
        self.met = set()
        self.steps = 0
        self.problems = []

    def mutate(self, k, v):
        key = key_of(k)
        if tuple(v) == (0, 0):
            if self.steps % 2:
                del self.trie[key]
            else:
                self.trie.delete(key)
            self.contents.pop(tuple(k), None)
        else:
            self.trie[key] = val(*v)
            self.contents[tuple(k)] = tuple(v)
            self.ever.add((tuple(k), tuple(v)))
        self.changed.add(tuple(k))

    def batch(self, ev):
        """a squash_changes block of two operations, committed or left by an exception"""
        class Abort(Exception):
            pass

        ops = [(ev["k1"], ev["v1"]), (ev["k2"], ev["v2"])]
        try:
            with self.trie.squash_changes() as b:
                for k, v in ops:
                    key = key_of(k)
                    if tuple(v) == (0, 0):
                        del b[key]
                    else:
                        b[key] = val(*v)
                if not ev["commit"]:
                    raise Abort()
        except Abort:
            return
        for k, v in ops:
            before = self.contents.get(tuple(k))
            if tuple(v) == (0, 0):
                self.contents.pop(tuple(k), None)
            else:
                self.contents[tuple(k)] = tuple(v)
        # what is visible afterwards is what counts: keys whose value differs from before the block
        for k, _ in ops:
            now = self.contents.get(tuple(k))
            if now != self.pre_batch.get(tuple(k)):
                self.changed.add(tuple(k))
            if now is not None:
                self.ever.add((tuple(k), now))

    def round(self, p, how=0):
        """one round of the documented loop for prefix p; returns (kind, via, node or None)"""
        p = tuple(p)
        self.steps += 1
        count("walk-round")
        cached = None
        if self.cache is not None:
            try:
                cached = self.cache.get(p)
            except KeyError:
                cached = None
        via = "cache" if cached is not None else "root"
        try:
            if cached is not None:
                node = self.trie.traverse_from(cached[0], cached[1])
            else:
                node = self.trie.traverse(p)
            kind = "node"
        except self.exc.TraversedPartialPath as e:
            node = e.simulated_node
            kind = "partial"
        except self.exc.MissingTraversalNode as e:
            if cached is not None:
                self.cache.delete(p)
            else:
                self.problems.append(("C09", "node-missing-on-a-walk-from-the-root",
                                      {"prefix": p, "hash": bytes(e.missing_node_hash)}))
            return "missing", via, None
        subs = [tuple(int(x) for x in s) for s in node.sub_segments]
        self.fog = self.fog.explore(p, subs)
        if node.value:
            self.met.add((p + tuple(int(x) for x in node.suffix), vrep(node.value)))
        if self.cache is not None:
            if subs:
                self.cache.add(p, node, subs)
            else:
                self.cache.delete(p)
        return kind, via, node

    def fog_list(self):
        from .fog import contents

        return contents(self.fog)


def replay_line(obj, ctx, opts):
    h, st = obj["h"], obj["st"]
    w = Walk(ctx, h[0])
    out = w.problems
    following = True
    for idx, ev in enumerate(h[1:]):
        if ev["a"] in ("mutate", "batch"):
            try:
                if ev["a"] == "batch":
                    w.pre_batch = dict(w.contents)
                    w.batch(ev)
                elif w.contents.get(tuple(ev["k"])) == tuple(ev["v"]):
                    w.trie[key_of(ev["k"])] = val(*ev["v"])   # rewrite with the same value: nothing changes
                else:
                    w.mutate(ev["k"], ev["v"])
            except Exception as exc:  # noqa
                # a modification of the trie that raises on a complete database is the business of
                # C01 / C05 / C06; the walk cannot be followed any further
                out.append(("C01", "modification-raised-during-walk", {"event": ev["a"], "exc": type(exc).__name__,
                                                                         "msg": str(exc)[:120]}))
                return out
            continue
        p = tuple(ev["p"])
        # the prefix comes out of the real fog: asking for p itself must give p (it is unexplored)
        try:
            got = w.fog.nearest_unknown(p) if idx % 2 else w.fog.nearest_right(p)
            if tuple(got) != p and following:
                out.append(("mirror", "fog-query-did-not-return-the-modelled-prefix", {"asked": p, "got": tuple(got)}))
                following = False
        except Exception as e:  # noqa
            if following:
                out.append(("mirror", "fog-query-raised", {"asked": p, "exc": type(e).__name__}))
            following = False
        if not following:
            break
        kind, via, node = w.round(p)
        if (kind, via) != (ev["kind"], ev["via"]):
            out.append(("mirror", "walk-round-outcome-differs",
                        {"prefix": p, "real": [kind, via], "model": [ev["kind"], ev["via"]]}))
            following = False
        elif node is not None:
            real = ([list(int(x) for x in s) for s in node.sub_segments], list(vrep(node.value)),
                    [int(x) for x in node.suffix])
            if real != (ev["subs"], ev["v"], ev["suffix"]):
                out.append(("mirror", "walk-round-node-differs", {"prefix": p, "real": real,
                                                                  "model": [ev["subs"], ev["v"], ev["suffix"]]}))
                following = False
    if following:
        if sorted(w.fog_list()) != sorted(tuple(p) for p in st["fog"]):
            out.append(("mirror", "fog-differs-from-model", {"real": w.fog_list()}))
        if w.met != {(tuple(k), tuple(v)) for k, v in st["met"]}:
            out.append(("mirror", "met-differs-from-model", {"real": sorted(w.met)}))
        if w.cache is not None and set(w.cache._cache) != {tuple(p) for p in st["cached"]}:
            out.append(("mirror", "cache-keys-differ-from-model", {}))
    # --- the verdict: continue the real walk to completion, judge it on its own terms
    emitted_steps = w.steps
    guard = 0
    sweep = len(h) % 3 == 0
    if sweep:
        # a sweeping walker: always asks for what lies to the right of the prefix it explored
        # last, wraps around at the right end (FullDirectionalVisibility) and stops when the fog
        # says that nothing is left (PerfectVisibility) -- it never looks at is_complete
        xm = importlib.import_module("trie.exceptions")
        q = tuple(h[-1]["p"]) if h[-1].get("p") is not None else ()
        COUNTS["sweeping-walker"] = COUNTS.get("sweeping-walker", 0) + 1
        while guard < MAX_STEPS:
            guard += 1
            try:
                p = w.fog.nearest_right(q)
            except xm.PerfectVisibility:
                break
            except xm.FullDirectionalVisibility:
                q = ()
                continue
            except Exception as e:  # noqa
                out.append(("C09", "fog-query-raised-while-fog-incomplete", {"exc": type(e).__name__}))
                break
            w.round(tuple(p))
            q = tuple(p)
    while not w.fog.is_complete and guard < MAX_STEPS and not sweep:
        guard += 1
        try:
            p = w.fog.nearest_right(()) if guard % 2 else w.fog.nearest_unknown((15,) * 9)
        except Exception as e:  # noqa
            out.append(("C09", "fog-query-raised-while-fog-incomplete", {"exc": type(e).__name__}))
            break
        w.round(tuple(p))
    if not w.fog.is_complete:
        out.append(("C09", "sweeping-walk-stopped-with-the-fog-incomplete" if sweep else "walk-does-not-terminate",
                    {"rounds": w.steps, "fog": w.fog_list()[:6]}))
        return out
    invented = [m for m in w.met if m not in w.ever]
    if invented:
        out.append(("C09", "met-something-never-stored", {"invented": invented[:3], "mutations": st["muts"]}))
    stable = {(k, v) for k, v in w.contents.items() if k not in w.changed}
    missed = [m for m in stable if m not in w.met]
    if missed:
        out.append(("C09", "unchanged-key-not-met", {"missed": missed[:3], "mutations": st["muts"]}))
    if not w.changed and w.met != set(w.contents.items()):
        out.append(("C09", "static-walk-not-exactly-the-contents",
                    {"met": sorted(w.met)[:6], "contents": sorted(w.contents.items())[:6]}))
    return out


def stats(obj, ctx):
    tags = [("calls:" + k, v) for k, v in COUNTS.items()]
    COUNTS.clear()
    h = obj["h"]
    kinds = {e.get("kind") for e in h if e["a"] == "step"}
    if "partial" in kinds:
        tags.append("round-through-simulated-node")
    if "missing" in kinds:
        tags.append("stale-cache-entry-dropped")
    if any(e["a"] == "step" and e["via"] == "cache" for e in h):
        tags.append("round-via-frontier-cache")
    if any(e["a"] == "mutate" for e in h):
        tags.append("mutation-during-walk")
    if any(e["a"] == "batch" and e["commit"] for e in h):
        tags.append("committed-batch-during-walk")
    if any(e["a"] == "batch" and not e["commit"] for e in h):
        tags.append("aborted-batch-during-walk")
    if not obj["st"]["fog"]:
        tags.append("walk-completed-within-behaviour")
    return tags
