"""Replaying behaviours of SMT.tla on trie.smt.SparseMerkleTree / SparseMerkleProof / calc_root."""
import importlib
import json

from eth_hash.auto import keccak

from .binary import bits_to_bytes
from .common import MachineryError
from .realize import val

COUNTS = {}


def count(k, n=1):
    COUNTS[k] = COUNTS.get(k, 0) + n


class SmtRealizer:
    """collapsed-normal-form node -> Merkle hash, for one default value"""

    def __init__(self, default):
        self.default = default
        self.defs = [keccak(default)]
        self.memo = {}

    def h(self, j):
        t = j[0]
        if t == "D":
            while len(self.defs) <= j[1]:
                self.defs.append(keccak(self.defs[-1] + self.defs[-1]))
            return self.defs[j[1]]
        if t == "V":
            return keccak(val(j[1], j[2]))
        if t == "P":
            key = json.dumps(j, separators=(",", ":"))
            r = self.memo.get(key)
            if r is None:
                r = keccak(self.h(j[1]) + self.h(j[2]))
                self.memo[key] = r
            return r
        raise MachineryError(f"bad smt node {j!r}")


def make_context(mod):
    return (mod, importlib.import_module("trie.smt"), importlib.import_module("trie.exceptions"))


def do_reject(tree, proof, ev, n, ctx, ksize, default):
    from . import badargs as ba

    mod, smt, exc = ctx
    e, arg, kind = ev["entry"], ev["arg"], ev["kind"]
    good = bytes([n % 256]) * ksize

    def badkey():
        return {"notbytes": ba.pick(ba.NOT_BYTES, n), "short": good[:-1], "long": good + b"\x00", "empty": b""}[kind]

    def badlist(depth):
        return {"short": [b"\x00" * 32] * (depth - 1), "long": [b"\x00" * 32] * (depth + 1)}[kind]
    try:
        if e in ("get", "exists", "getitem", "contains", "branch", "delete", "delitem"):
            k = badkey()
            if e == "get":
                tree.get(k)
            elif e == "exists":
                tree.exists(k)
            elif e == "getitem":
                tree[k]
            elif e == "contains":
                k in tree
            elif e == "branch":
                tree.branch(k)
            elif e == "delete":
                tree.delete(k)
            else:
                del tree[k]
        elif e in ("set", "setitem"):
            k, v = (badkey(), b"v") if arg == "key" else (good, ba.pick(ba.NOT_BYTES, n))
            if e == "set":
                tree.set(k, v)
            else:
                tree[k] = v
        elif e == "constructor":
            smt.SparseMerkleTree(key_size={"zero": 0, "toolarge": 33 + n % 40, "negative": -1 - n % 3}[kind])
        elif e == "from_db" and arg == "key_size":
            smt.SparseMerkleTree.from_db(tree.db, tree.root_hash, default=default,
                                         key_size={"zero": 0, "toolarge": 33 + n % 40, "negative": -1 - n % 3}[kind])
        elif e == "from_db":
            r = {"notbytes": ba.pick(ba.NOT_BYTES, n), "short": tree.root_hash[:-1], "long": tree.root_hash + b"\x00"}[kind]
            smt.SparseMerkleTree.from_db(tree.db, r, key_size=ksize, default=default)
        elif e == "calc_root":
            if arg == "key":
                smt.calc_root(ba.pick(ba.NOT_BYTES, n), b"v", [b"\x00" * 32] * (ksize * 8))
            elif arg == "value":
                smt.calc_root(good, ba.pick(ba.NOT_BYTES, n), [b"\x00" * 32] * (ksize * 8))
            else:
                smt.calc_root(good, b"v", badlist(ksize * 8))
        elif e == "proof_constructor":
            if arg == "key":
                smt.SparseMerkleProof(ba.pick(ba.NOT_BYTES, n), b"v", [b"\x00" * 32] * (ksize * 8))
            elif arg == "value":
                smt.SparseMerkleProof(good, ba.pick(ba.NOT_BYTES, n), [b"\x00" * 32] * (ksize * 8))
            else:
                smt.SparseMerkleProof(good, b"v", badlist(ksize * 8))
        elif e == "proof_update":
            proof.update(badkey(), b"v", [b"\x00" * 32] * (ksize * 8))
        else:
            return "harness-unknown-entry", e
    except Exception as x:  # noqa
        if ba.exc_matches(x, ev["exc"], exc):
            return "rejected", type(x).__name__
        return "wrongexc", type(x).__name__ + ": " + str(x)[:100]
    return "accepted", None


def proof_state(p):
    return (p.value, tuple(p.branch), p.root_hash)


def replay_line(obj, ctx, opts):
    from .common import c18_relabel

    return c18_relabel(obj, replay_one(obj, ctx, opts), lambda o: replay_one(o, ctx, opts))


def replay_one(obj, ctx, opts):
    mod, smt, exc = ctx
    h, st = obj["h"], obj["st"]
    out = []
    init = h[0]
    default = val(*init["dflt"])
    ksize = init["depth"] // 8
    rz = SmtRealizer(default)
    tree = smt.SparseMerkleTree(key_size=ksize, default=default)
    initial_root = tree.root_hash
    proof = None
    for idx, ev in enumerate(h[1:]):
        a = ev["a"]
        if a == "reject":
            b_db, b_root = dict(tree.db), tree.root_hash
            b_proof = proof_state(proof) if proof is not None else None
            verdict, detail = do_reject(tree, proof, ev, idx, ctx, ksize, default)
            what = {"entry": ev["entry"], "arg": ev["arg"], "kind": ev["kind"], "detail": detail}
            if verdict == "accepted":
                out.append(("C18", "ill-formed-call-not-refused", what))
            elif verdict != "rejected":
                out.append(("C18", "ill-formed-call-refused-with-the-wrong-exception", dict(what, expected=ev["exc"])))
            if tree.db != b_db or tree.root_hash != b_root or (proof is not None and proof_state(proof) != b_proof):
                out.append(("C18", "refused-call-changed-state", what))
            continue
        key = bits_to_bytes(ev["k"])
        if a == "track":
            try:
                proof = smt.SparseMerkleProof(key, tree.get(key), tree.branch(key))
            except Exception as e:  # noqa
                out.append(("C15", "cannot-create-proof-for-readable-key", {"key": key, "exc": type(e).__name__}))
                return out
            continue
        value = val(*ev["v"])
        if idx % 3 == 2:
            # re-opening the tree over its own database and root is a no-op the property allows at any
            # point (from_db reads identically): the rest of the behaviour runs on the re-opened object
            try:
                tree = smt.SparseMerkleTree.from_db(tree.db, tree.root_hash, key_size=ksize, default=default)
                count("from_db-reopen")
            except Exception as e:  # noqa
                out.append(("C14", "from_db-raised", {"exc": type(e).__name__}))
                return out
        try:
            if a == "set":
                upd = tree.set(key, value)
            else:
                upd = tree.delete(key) if idx % 2 else tree.set(key, default)
        except Exception as e:  # noqa
            out.append(("C14", a + "-raised", {"key": key, "exc": type(e).__name__, "msg": str(e)[:100]}))
            return out
        want_upd = tuple(rz.h(j) for j in ev["upd"])
        if tuple(upd) != want_upd:
            out.append(("C14", "returned-hashes-are-not-the-updated-path-root-to-leaf",
                        {"action": a, "key": key, "len": len(upd), "want_len": len(want_upd)}))
            # (the proof below is fed what the tree really returned: C15 is about the pair)
        if proof is not None:
            count("proof.update")
            before = proof_state(proof)
            m = ev["m"]
            try:
                proof.update(key, value, tuple(upd[:m]))
                refused = False
            except exc.ValidationError:
                refused = True
            except Exception as e:  # noqa
                out.append(("C15", "update-raised-other-exception", {"exc": type(e).__name__, "m": m,
                                                                     "key": key, "tracked": proof.key}))
                refused = True
            if refused != ev["short"]:
                out.append(("C15", "too-short-list-accepted" if ev["short"] else "sufficient-list-refused",
                            {"m": m, "key": key, "tracked": proof.key}))
            if refused:
                if proof_state(proof) != before:
                    out.append(("C15", "refused-update-changed-the-proof", {"m": m}))
                try:
                    proof.update(key, value, tuple(upd))
                except Exception as e:  # noqa
                    out.append(("C15", "full-update-list-refused", {"exc": type(e).__name__}))
            # in sync after every update
            try:
                tv, tb = tree.get(proof.key), tree.branch(proof.key)
            except KeyError:
                tv, tb = b"", None
            if proof.root_hash != tree.root_hash:
                out.append(("C15", "proof-root-differs-from-tree-root", {"after": a, "key": key, "tracked": proof.key}))
            elif tb is not None and (proof.value != tv or tuple(proof.branch) != tuple(tb)):
                out.append(("C15", "proof-value-or-branch-differs-from-tree", {"after": a, "key": key}))
    # ---- C14 observables of the final state
    root = rz.h(st["root"])
    if tree.root_hash != root:
        out.append(("C14", "root-is-not-the-merkle-root-of-the-full-tree", {"real": tree.root_hash, "expected": root}))
    if st["root"] == ["D", init["depth"]] and tree.root_hash != initial_root:
        out.append(("C14", "cleared-tree-root-differs-from-initial-root", {}))
    other = None
    try:
        other = smt.SparseMerkleTree.from_db(tree.db, tree.root_hash, key_size=ksize, default=default)
    except Exception as e:  # noqa
        out.append(("C14", "from_db-raised", {"exc": type(e).__name__}))
    if other is not None and st["look"]:
        # mirror only: a write through the reopened tree lands in the database it was opened over
        try:
            k0 = bits_to_bytes(st["look"][0]["k"])
            probe = smt.SparseMerkleTree.from_db(tree.db, tree.root_hash, key_size=ksize, default=default)
            before = dict(tree.db)
            probe.set(k0, b"probe-value")
            again = smt.SparseMerkleTree.from_db(tree.db, probe.root_hash, key_size=ksize, default=default)
            if again.get(k0) != b"probe-value":
                out.append(("mirror", "write-through-reopened-tree-not-readable-from-the-shared-db", {}))
            tree.db.clear()
            tree.db.update(before)
        except Exception as x:  # noqa
            out.append(("mirror", "write-through-reopened-tree-not-readable-from-the-shared-db", {"exc": type(x).__name__}))
            tree.db.clear()
            tree.db.update(before)
    for e in st["look"]:
        key = bits_to_bytes(e["k"])
        for t, label in ((tree, "tree"), (other, "from_db")):
            if t is None:
                continue
            count("get")
            try:
                got = ("val", t.get(key) if len(out) % 2 else t[key])
            except KeyError:
                got = ("KeyError", b"")
            except Exception as x:  # noqa
                got = ("raised " + type(x).__name__, b"")
            want = (e["g"], val(*e["v"]))
            if got != want:
                out.append(("C14", label + "-get-wrong", {"key": key, "got": got, "want": want}))
            ex = t.exists(key) if len(out) % 2 else (key in t)
            if ex != (e["g"] == "val"):
                out.append(("C14", label + "-exists-wrong", {"key": key, "got": ex}))
            try:
                br = t.branch(key)
            except KeyError:
                br = None
            if e["g"] == "val":
                want_br = tuple(rz.h(j) for j in e["br"])
                if br is None or tuple(br) != want_br:
                    out.append(("C14", label + "-branch-wrong", {"key": key}))
                else:
                    count("calc_root")
                    if smt.calc_root(key, want[1], br) != tree.root_hash:
                        out.append(("C14", "calc_root-of-branch-is-not-the-root", {"key": key}))
            elif br is not None:
                out.append(("C14", label + "-branch-of-absent-key-returned", {"key": key}))
    if st["tracking"] and proof is not None:
        if proof.value != val(*st["pvalue"]) or tuple(proof.branch) != tuple(rz.h(j) for j in st["pbranch"]):
            out.append(("C15", "proof-differs-from-model", {}))
    return out


def stats(obj, ctx):
    tags = [("calls:" + k, v) for k, v in COUNTS.items()]
    COUNTS.clear()
    h = obj["h"]
    if tuple(h[0]["dflt"]) != (0, 0):
        tags.append("non-blank-default")
    if any(e["a"] == "reject" for e in h[1:-1]):
        tags.append("rejected-call-in-mid-history")
    for e in h[1:]:
        if e["a"] in ("set", "delete"):
            if e.get("short"):
                tags.append("truncated-list-refused")
            if e["a"] == "set" and tuple(e["v"]) == (0, 0):
                tags.append("blank-value-written")
        if e["a"] == "track":
            tags.append("proof-tracked")
    if any(e["g"] == "KeyError" for e in obj["st"]["look"]):
        tags.append("absent-key")
    return tags
