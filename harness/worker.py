"""Replay worker: `python -m harness.worker <module:function> <opts-json>`.
Reads emitted TLC lines on stdin, replays each on the real code, writes one JSON
summary line per block of lines and at end of input."""
import hashlib
import importlib
import json
import sys
import traceback


def main():
    from . import tlc
    from .common import import_repo

    mod_name, fn_name = sys.argv[1].split(":")
    opts = frozenset(json.loads(sys.argv[2]))
    m = importlib.import_module(mod_name)
    fn = getattr(m, fn_name)
    ctx = m.make_context(import_repo())
    out = sys.stdout
    n = 0
    findings, kinds, finals, sample = [], {}, set(), None
    tags = {}
    percl = {}
    stats = getattr(m, "stats", None)

    def flush():
        nonlocal n, findings, kinds, finals, sample, tags
        out.write(json.dumps(clean({"n": n, "findings": findings, "kinds": kinds, "tags": tags,
                                    "finals": sorted(finals), "sample": sample})) + "\n")
        out.flush()
        n = 0
        findings, kinds, finals, sample, tags = [], {}, set(), None, {}

    for line in sys.stdin:
        try:
            obj = tlc.parse_emit(line)
        except Exception as exc:  # noqa
            findings.append(["machinery", "unparsable-emission", {"err": str(exc), "line": line[:200]}, None])
            continue
        n += 1
        try:
            fs = fn(obj, ctx, opts)
        except Exception:  # noqa
            fs = [("machinery", "replayer-crashed", {"err": traceback.format_exc()[-1200:]})]
        if stats is not None:
            try:
                for t in stats(obj, ctx):
                    if isinstance(t, tuple):
                        tags[t[0]] = tags.get(t[0], 0) + t[1]
                    else:
                        tags[t] = tags.get(t, 0) + 1
            except Exception:  # noqa
                tags["stats-failed"] = tags.get("stats-failed", 0) + 1
        h = obj.get("h") or []
        if h:
            a = h[-1].get("a", "?")
            kinds[a] = kinds.get(a, 0) + 1
        finals.add(hashlib.md5(json.dumps(obj.get("st"), sort_keys=True).encode()).hexdigest()[:12])
        if sample is None and len(h) >= 3:
            sample = obj
        for f in fs:
            # keep the first few of every (owner, clause) in full, count the rest: the first
            # occurrence of every distinct complaint always reaches the verdict with its behaviour
            key = (f[0], f[1])
            percl[key] = percl.get(key, 0) + 1
            if percl[key] <= 3:
                findings.append([f[0], f[1], f[2], obj])
            else:
                findings.append([f[0], f[1], None, None])
        if n >= 2000:
            flush()
    flush()


def clean(x):
    """make anything a replayer reports JSON-serialisable (bytes -> hex, also as dict keys)"""
    if isinstance(x, (bytes, bytearray)):
        return bytes(x).hex()
    if isinstance(x, dict):
        return {(k if isinstance(k, (str, int, float, bool)) or k is None else clean(k) if
                 isinstance(k, (bytes, bytearray)) else str(k)): clean(v) for k, v in x.items()}
    if isinstance(x, (list, tuple, set, frozenset)):
        return [clean(v) for v in x]
    if isinstance(x, (str, int, float, bool)) or x is None:
        return x
    return str(x)


def _hex(b):
    if isinstance(b, (bytes, bytearray)):
        return b.hex()
    if isinstance(b, (set, frozenset, tuple)):
        return list(b)
    return str(b)


if __name__ == "__main__":
    main()
