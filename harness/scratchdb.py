"""Replaying behaviours of ScratchDB.tla on the real trie.utils.db.ScratchDB."""


class UserError(Exception):
    pass


class UserBaseError(BaseException):
    pass


COUNTS = {}


def make_context(mod):
    import importlib

    dbmod = importlib.import_module("trie.utils.db")
    return (mod, dbmod)


def b(s):
    return s.encode()


def run(h, dbmod):
    """perform the behaviour; returns (wrapped dict, ScratchDB, open context manager or None, problems)"""
    init = h[0]
    wrapped = {b(k): b(v) for k, v in init["w"].items() if v != "absent"}
    s = dbmod.ScratchDB(wrapped)
    cm = None
    problems = []
    for idx, ev in enumerate(h[1:]):
        a = ev["a"]
        before = dict(wrapped)
        if a == "write":
            s[b(ev["k"])] = b(ev["v"])
        elif a == "delete":
            del s[b(ev["k"])]
        elif a == "enter":
            cm = s.batch_commit(do_deletes=ev["d"])
            cm.__enter__()
        elif a == "exit":
            cm.__exit__(None, None, None)
            cm = None
        elif a == "raise":
            exc = UserError("boom") if ev["kind"] == "Exception" else UserBaseError("boom")
            try:
                swallowed = cm.__exit__(type(exc), exc, None)
            except (UserError, UserBaseError):
                swallowed = False
            if swallowed:
                problems.append(("C17", "batch_commit-swallowed-the-exception", {"step": idx}))
            cm = None
        if a != "exit" and wrapped != before:
            problems.append(("C17", "wrapped-db-written-outside-commit", {"step": idx, "action": a}))
    return wrapped, s, cm, problems


def replay_line(obj, ctx, opts):
    mod, dbmod = ctx
    h, st = obj["h"], obj["st"]
    wrapped, s, cm, out = run(h, dbmod)
    last = h[-1]["a"]
    exp_wrapped = {b(k): b(v) for k, v in st["wrapped"] if v != "absent"}
    if wrapped != exp_wrapped:
        clause = {"exit": "commit-applied-wrongly", "raise": "abort-changed-wrapped-db"}.get(
            last, "wrapped-db-differs")
        out.append(("C17", clause, {"real": wrapped, "expected": exp_wrapped}))
    for k, v in st["read"]:
        COUNTS["read"] = COUNTS.get("read", 0) + 1
        try:
            got = s[b(k)]
        except KeyError:
            got = "KeyError"
        except Exception as exc:  # noqa
            got = "raised " + type(exc).__name__
        want = "KeyError" if v == "KeyError" else b(v)
        if got != want:
            out.append(("C17", "read-wrong", {"key": k, "got": got if isinstance(got, str) else got, "want": want}))
    for k, v in st["has"]:
        COUNTS["contains"] = COUNTS.get("contains", 0) + 1
        try:
            got = b(k) in s
        except Exception as exc:  # noqa
            got = "raised " + type(exc).__name__
        if got is not v:
            out.append(("C17", "membership-wrong", {"key": k, "got": got, "want": v}))
    try:
        COUNTS["copy"] = COUNTS.get("copy", 0) + 1
        cp = s.copy()
        # the property fixes copy() only where reads are fixed: latest buffered write, or the
        # wrapped value of an untouched key; what it shows for a key whose latest action is a
        # delete (the code hides it although reads fall through) is compared as mirror only
        deleted = {b(k) for k in st["deleted"]}
        want = {b(k): b(v) for k, v in st["read"] if v != "KeyError" and b(k) not in deleted}
        if {k: v for k, v in cp.items() if k not in deleted} != want:
            out.append(("C17", "copy-disagrees-with-reads", {"got": cp, "want": want}))
        elif cp != {b(k): b(v) for k, v in st["copy"]}:
            out.append(("mirror", "copy-of-deleted-keys-differs-from-transcription", {"got": cp}))
    except Exception as exc:  # noqa
        out.append(("C17", "copy-raised", {"exc": type(exc).__name__}))
    buffered = {k for k in s.cache}
    if last in ("exit", "raise") and buffered:
        out.append(("C17", "buffer-not-empty-after-exit", {"left": sorted(buffered)}))
    elif buffered != {b(k) for k in st["buffered"]}:
        out.append(("mirror", "buffer-keys-differ", {"real": sorted(buffered)}))
    if wrapped != exp_wrapped:
        pass
    return out


def stats(obj, ctx):
    tags = [("calls:" + k, v) for k, v in COUNTS.items()]
    COUNTS.clear()
    st = obj["st"]
    h = obj["h"]
    acts = [e["a"] for e in h]
    if "raise" in acts:
        tags.append("aborted-batch")
    if "exit" in acts:
        tags.append("committed-batch")
    if any(e["a"] == "enter" and e["d"] for e in h):
        tags.append("deletes-requested")
    for i, e in enumerate(h):
        if e["a"] == "delete" and any(x["a"] == "write" and x["k"] == e["k"] for x in h[:i]):
            tags.append("write-then-delete")
            break
    if any(v == "KeyError" for _, v in st["read"]):
        tags.append("read-raises-KeyError")
    return tags
