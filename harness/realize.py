"""The only bridge between the specification's nodes and bytes.

realize(j)  : compact spec node (MPT.tla `J`) -> exact RLP bytes / keccak hash the
              Yellow Paper prescribes (own hex-prefix; third-party rlp + keccak).
decode(db,h): real database entries -> compact spec node, recording for every
              node the real encoded length and whether the real encoder
              referenced it by hash.
Nothing here imports the library under test."""
import json

import rlp
from eth_hash.auto import keccak

from .common import MachineryError

BLANK_ROOT = keccak(rlp.encode(b""))


def hp(nibbles, term):
    """Hex-prefix encoding, Yellow Paper appendix C."""
    f = 2 if term else 0
    if len(nibbles) % 2:
        seq = [f + 1] + list(nibbles)
    else:
        seq = [f, 0] + list(nibbles)
    return bytes(seq[i] * 16 + seq[i + 1] for i in range(0, len(seq), 2))


def unhp(b):
    n = []
    for x in b:
        n += [x >> 4, x & 15]
    flag = n[0]
    if flag > 3:
        raise ValueError("bad hex-prefix flag")
    term = flag in (2, 3)
    odd = flag in (1, 3)
    if not odd and n[1] != 0:
        raise ValueError("bad hex-prefix padding")
    return (n[1:] if odd else n[2:]), term


def val(tag, ln):
    return bytes([tag]) * ln


# when recording executions whose values are arbitrary bytes, a registry gives every distinct
# non-repeated value an abstract tag >= 1000 (all the specification needs of a value is its length,
# whether it is a single byte < 0x80, and its identity)
VALUE_REGISTRY = None


def unval(b):
    """bytes -> (tag, len); repeated-byte values directly, others through VALUE_REGISTRY."""
    if b == b"":
        return (0, 0)
    if b != bytes([b[0]]) * len(b):
        if VALUE_REGISTRY is not None:
            if b not in VALUE_REGISTRY:
                VALUE_REGISTRY[b] = 1000 + len(VALUE_REGISTRY)
            return (VALUE_REGISTRY[b], len(b))
        raise MachineryError(f"value {b!r} is not a repeated byte")
    return (b[0], len(b))


def nibbles_of(key):
    out = []
    for x in key:
        out += [x >> 4, x & 15]
    return out


def key_of(nibbles):
    if len(nibbles) % 2:
        raise MachineryError("odd nibble key")
    return bytes(nibbles[i] * 16 + nibbles[i + 1] for i in range(0, len(nibbles), 2))


class Realizer:
    """Memoising spec-node -> (raw node, encoding, hash, reference)."""

    def __init__(self):
        self.memo = {}
        self.size_mismatch = []

    def node(self, j):
        """returns dict(raw=, enc=, hash=, ref=) ; blank -> raw b''"""
        if not j:
            return {"raw": b"", "enc": rlp.encode(b""), "hash": BLANK_ROOT, "ref": b""}
        key = json.dumps(j, separators=(",", ":"))
        r = self.memo.get(key)
        if r is not None:
            return r
        t = j[0]
        if t == "L":
            raw = [hp(j[1], True), val(j[2], j[3])]
            sz = j[4]
        elif t == "E":
            raw = [hp(j[1], False), self.node(j[2])["ref"]]
            sz = j[3]
        elif t == "B":
            raw = [self.node(c)["ref"] for c in j[1]] + [val(j[2], j[3])]
            sz = j[4]
        else:
            raise MachineryError(f"bad spec node {j!r}")
        enc = rlp.encode(raw)
        if len(enc) != sz:
            # the specification's RLP size arithmetic disagrees with the codec
            self.size_mismatch.append((j, len(enc)))
        h = keccak(enc)
        r = {"raw": raw, "enc": enc, "hash": h, "ref": h if len(enc) >= 32 else raw}
        self.memo[key] = r
        return r

    def root_hash(self, j):
        return self.node(j)["hash"]

    def db(self, nodes):
        """set of spec nodes -> {hash: encoding} (every member stored under its hash)"""
        out = {}
        for j in nodes:
            r = self.node(j)
            out[r["hash"]] = r["enc"]
        return out

    def bag(self, pairs):
        return {self.node(j)["hash"]: c for j, c in pairs}


def decode_ref(db, ref, problems):
    """a reference inside a real node (hash / embedded list / b'') -> compact spec node
    with the real size and hashed flag appended: [..., sz, h]"""
    if ref == b"":
        return []
    if isinstance(ref, list):
        node, h = ref, 0
        enc = rlp.encode(ref)
    else:
        if len(ref) != 32:
            problems.append(("badref", ref))
            return []
        enc = db.get(ref)
        if enc is None:
            problems.append(("missing", ref))
            return ["M", ref.hex()]
        if keccak(enc) != ref:
            problems.append(("notcontentaddressed", ref))
        node, h = rlp.decode(enc), 1
    return decode_raw(db, node, len(enc), h, problems)


def decode_raw(db, node, sz, h, problems):
    if len(node) == 2:
        p, term = unhp(node[0])
        if term:
            tag, ln = unval(node[1])
            return ["L", p, tag, ln, sz, h]
        return ["E", p, decode_ref(db, node[1], problems), sz, h]
    if len(node) == 17:
        tag, ln = unval(node[16])
        return ["B", [decode_ref(db, c, problems) for c in node[:16]], tag, ln, sz, h]
    problems.append(("badnode", node))
    return []


def decode_root(db, root_hash, problems):
    """the trie denoted by a root hash, as a compact spec node (root: h = 1)"""
    if root_hash == BLANK_ROOT:
        return []
    enc = db.get(root_hash)
    if enc is None:
        problems.append(("missing", root_hash))
        return ["M", root_hash.hex()]
    if keccak(enc) != root_hash:
        problems.append(("notcontentaddressed", root_hash))
    return decode_raw(db, rlp.decode(enc), len(enc), 1, problems)


def decode_entry(db, key, problems):
    """one database entry as a compact spec node"""
    enc = db[key]
    if keccak(enc) != key:
        problems.append(("notcontentaddressed", key))
    return decode_raw(db, rlp.decode(enc), len(enc), 1, problems)
