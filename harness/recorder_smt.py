"""pytest plugin (`-p harness.recorder_smt`, PYTHONPATH=/verif; nothing in /repo changes): records
what the repository's own tests do with SparseMerkleTree, in the event format that Trace_SMT.tla
validates (one event per public set / delete: arguments, the returned update list decoded, the
real tree decoded from its database, what every key used so far reads as and its branch).
Proof objects of the tests are not followed (the trace format follows one proof fed with the
tree's own update lists; the tests feed many)."""
import json
import os

from . import realize
from . import smt_driver as sd

MAX_STEPS = int(os.environ.get("VERIF_RECORD_STEPS", "24"))
MAX_TREES = int(os.environ.get("VERIF_RECORD_MAX", "40"))      # per test
MAX_KEY_SIZE = 30          # (the JSON reader of TLC refuses nesting deeper than 255)
OUT = os.environ.get("VERIF_RECORD_OUT")
STATE = {"recs": {}, "done": [], "skipped": {}, "test": "", "started": 0, "total": 0, "depth": 0}


def skip(why):
    STATE["skipped"][why] = STATE["skipped"].get(why, 0) + 1


class Rec:
    """looks like smt_driver.Runner to Runner.observe"""

    def __init__(self, tree, smt, ksize, default):
        self.tree, self.smt, self.ksize, self.default = tree, smt, ksize, default
        self.depth = ksize * 8
        self.initial = tree.root_hash
        self.dec = sd.Decoder(tree.db, default, self.depth)
        self.proof = None
        self.pool = []
        self.ev = []
        self.registry = {}
        self.alive = True
        self.test = STATE["test"]


def install():
    import trie.smt as smt

    Tree = smt.SparseMerkleTree
    o_init = Tree.__init__
    originals = {"set": Tree.set, "delete": Tree.delete}

    def init(self, key_size=32, default=smt.BLANK_NODE):
        o_init(self, key_size, default)
        if STATE["depth"]:
            return
        if key_size > MAX_KEY_SIZE or not isinstance(default, bytes):
            return skip("not followed: key size beyond what a trace can hold")
        if STATE["started"] >= MAX_TREES:
            return skip("not followed: more than MAX_TREES trees in one test")
        STATE["started"] += 1
        STATE["recs"][id(self)] = Rec(self, smt, key_size, default)

    def wrap(a):
        orig = originals[a]

        def w(self, key, *rest):
            rec = STATE["recs"].get(id(self))
            if rec is None or rec.tree is not self or not rec.alive or STATE["depth"] or len(rec.ev) >= MAX_STEPS:
                return orig(self, key, *rest)
            if rec.dec.db is not self.db:
                rec.alive = False
                skip("recording ended: database replaced (from_db)")
                return orig(self, key, *rest)
            STATE["depth"] += 1
            raised = None
            try:
                upd = orig(self, key, *rest)
            except Exception as exc:  # noqa
                raised, upd = exc, ()
            finally:
                STATE["depth"] -= 1
            value = rest[0] if (a == "set" and rest) else rec.default
            ok_args = isinstance(key, bytes) and len(key) == rec.ksize and isinstance(value, bytes)
            if not ok_args:
                rec.alive = False
                skip("recording ended: ill-formed call")
            else:
                realize.VALUE_REGISTRY = rec.registry
                STATE["depth"] += 1
                try:
                    if key not in rec.pool:
                        rec.pool.append(key)
                    rec.ev.append({"a": a, "k": sd.bits_of(key), "v": list(realize.unval(value)), "m": rec.depth,
                                   "upd": rec.dec.seq(upd), "refused": False, "proofsame": True,
                                   "st": sd.Runner.observe(rec)})
                except Exception as exc:  # noqa   (the recorder never raises into the test)
                    rec.alive = False
                    skip("recording ended: could not be expressed: " + type(exc).__name__)
                finally:
                    STATE["depth"] -= 1
                    realize.VALUE_REGISTRY = None
            if raised is not None:
                raise raised
            return upd
        w.__wrapped__ = orig
        return w

    Tree.__init__ = init
    Tree.set = wrap("set")
    Tree.delete = wrap("delete")


def flush():
    for rec in STATE["recs"].values():
        if rec.dec.broken:
            skip("trace dropped: the database does not hold a sparse tree")
        elif len(rec.ev) >= 2:
            STATE["done"].append({"dflt": list(realize.unval(rec.default)), "depth": rec.depth, "ev": rec.ev,
                                  "test": rec.test})
        elif rec.ev:
            skip("trace dropped: shorter than two calls")
    STATE["recs"].clear()


def pytest_configure(config):
    install()
    try:        # recording slows the calls down: no hypothesis deadlines (explicit @settings still win)
        from hypothesis import settings

        settings.register_profile("verif-recorder", deadline=None)
        settings.load_profile("verif-recorder")
    except Exception:  # noqa
        pass


def pytest_runtest_setup(item):
    flush()
    STATE["test"] = item.nodeid
    STATE["total"] += STATE["started"]
    STATE["started"] = 0


def pytest_sessionfinish(session, exitstatus):
    flush()
    if OUT:
        with open(OUT, "w") as fh:
            json.dump({"traces": STATE["done"], "skipped": STATE["skipped"],
                       "tries_followed": STATE["total"] + STATE["started"]}, fh)
