"""C16: running the table TLC printed from Codec.tla (input, specified output) through the real
encode / decode functions; and recording real calls on longer random inputs for TLC to recompute."""
import importlib
import random

from .binary import pack_keypath

COUNTS = {}
H32 = bytes(range(1, 33))


def count(k, n=1):
    COUNTS[k] = COUNTS.get(k, 0) + n


def make_context(mod):
    im = importlib.import_module
    return (mod, im("trie.utils.nibbles"), im("trie.utils.binaries"), im("trie.utils.nodes"), im("trie.exceptions"),
            im("trie.constants"))


def call(fn, *a):
    count(fn.__name__)
    try:
        return fn(*a)
    except Exception as e:  # noqa
        return "raised " + type(e).__name__


def replay_line(row, ctx, opts):
    mod, nb, bn, nd, exc, const = ctx
    out = []

    def expect(what, got, want, **kw):
        if got != want:
            out.append(("C16", what, dict(kw, got=got, want=want)))

    k = row["kind"]
    if k == "nib":
        nib = tuple(row["nib"])
        hpT, hpF = bytes(row["hpT"]), bytes(row["hpF"])
        expect("encode_nibbles-terminated-differs-from-HP", call(nb.encode_nibbles, nib + (16,)), hpT, nibbles=nib)
        expect("encode_nibbles-unterminated-differs-from-HP", call(nb.encode_nibbles, nib), hpF, nibbles=nib)
        expect("decode_nibbles-does-not-invert-HP", call(nb.decode_nibbles, hpT), nib + (16,), nibbles=nib)
        expect("decode_nibbles-does-not-invert-HP", call(nb.decode_nibbles, hpF), nib, nibbles=nib)
        # the same sequences held in a list, and the terminator helpers on both kinds of sequence
        term = nib + (16,)
        expect("encode_nibbles-terminated-differs-from-HP", call(nb.encode_nibbles, list(term)), hpT, nibbles=nib, as_list=True)
        expect("encode_nibbles-unterminated-differs-from-HP", call(nb.encode_nibbles, list(nib)), hpF, nibbles=nib, as_list=True)
        for seq in (term, list(term)):
            expect("terminated-sequence-not-recognised", bool(call(nb.is_nibbles_terminated, seq)), True, nibbles=nib)
            expect("add_nibbles_terminator-not-idempotent", tuple(call(nb.add_nibbles_terminator, seq)), term, nibbles=nib)
            expect("remove_nibbles_terminator-wrong", tuple(call(nb.remove_nibbles_terminator, seq)), nib, nibbles=nib)
            expect("compute_leaf_key-differs-from-HP", call(nd.compute_leaf_key, seq), hpT, nibbles=nib, terminated=True)
        for seq in (nib, list(nib)):
            expect("unterminated-sequence-taken-as-terminated", bool(call(nb.is_nibbles_terminated, seq)), False, nibbles=nib)
            expect("add_nibbles_terminator-wrong", tuple(call(nb.add_nibbles_terminator, seq)), term, nibbles=nib)
            expect("remove_nibbles_terminator-wrong", tuple(call(nb.remove_nibbles_terminator, seq)), nib, nibbles=nib)
        expect("compute_leaf_key-differs-from-HP", call(nd.compute_leaf_key, nib), hpT, nibbles=nib)
        expect("compute_extension_key-differs-from-HP", call(nd.compute_extension_key, nib), hpF, nibbles=nib)
        leaf, ext = [hpT, b"value"], [hpF, H32]
        expect("leaf-node-misclassified", call(nd.get_node_type, leaf), const.NODE_TYPE_LEAF, nibbles=nib)
        expect("extension-node-misclassified", call(nd.get_node_type, ext), const.NODE_TYPE_EXTENSION, nibbles=nib)
        expect("extract_key-of-leaf-wrong", call(nd.extract_key, leaf), nib, nibbles=nib)
        expect("extract_key-of-extension-wrong", call(nd.extract_key, ext), nib, nibbles=nib)
        if len(nib) % 2 == 0:
            b = bytes(row["bytes"])
            expect("nibbles_to_bytes-wrong", call(nb.nibbles_to_bytes, nib), b, nibbles=nib)
            expect("bytes_to_nibbles-wrong", call(nb.bytes_to_nibbles, b), nib, nibbles=nib)
        else:
            expect("odd-nibbles-not-refused", call(nb.nibbles_to_bytes, nib), "raised InvalidNibbles", nibbles=nib)
    elif k == "bits":
        bits = bytes(row["bits"])
        kp = bytes(row["keypath"])
        expect("encode_from_bin_keypath-wrong", call(bn.encode_from_bin_keypath, bits), kp, bits=list(bits))
        expect("decode_to_bin_keypath-does-not-invert", call(bn.decode_to_bin_keypath, kp), bits, bits=list(bits))
        if len(bits) % 8 == 0:
            b = bytes(row["bytes"])
            expect("decode_from_bin-wrong", call(bn.decode_from_bin, bits), b, bits=list(bits))
            expect("encode_to_bin-wrong", call(bn.encode_to_bin, b), bits, bits=list(bits))
        if bits:
            node = b"\x00" + kp + H32
            expect("encode_kv_node-wrong", call(nd.encode_kv_node, bits, H32), node, bits=list(bits))
            expect("parse_node-of-kv-wrong", call(nd.parse_node, node), (const.KV_TYPE, bits, H32), bits=list(bits))
        else:
            expect("empty-keypath-not-refused", call(nd.encode_kv_node, bits, H32), "raised ValidationError")
    elif k == "bytes":
        b = bytes(row["bytes"])
        expect("bytes_to_nibbles-wrong", call(nb.bytes_to_nibbles, b), tuple(row["nib"]), bytes=b)
        expect("encode_to_bin-wrong", call(bn.encode_to_bin, b), bytes(row["bits"]), bytes=b)
        if b:
            leaf = b"\x02" + b
            expect("encode_leaf_node-wrong", call(nd.encode_leaf_node, b), leaf, value=b)
            expect("parse_node-of-leaf-wrong", call(nd.parse_node, leaf), (const.LEAF_TYPE, None, b), value=b)
    elif k == "shape":
        typ, ln = row["typ"], row["len"]
        if ln == 0:
            nodes = [b"", None]
        elif typ == 0 and ln > 33:
            nbytes = ln - 33
            bits = bytes([1, 0] * (4 * (nbytes - 1)))
            nodes = [b"\x00" + pack_keypath(list(bits)) + H32]
            if len(nodes[0]) != ln:
                out.append(("machinery", "kv-node-of-requested-length-not-built", {"len": ln}))
                return out
        else:
            nodes = [bytes([typ]) + bytes((7 * i + 3) % 256 for i in range(ln - 1))]
            if typ == 255 and ln == 32:
                from eth_hash.auto import keccak

                nodes.append(keccak(b""))        # the blank hash is not a node: unknown type byte 0xc5
        for node in nodes:
            got = call(nd.parse_node, node)
            want = row["parse"]
            if want == "InvalidNode":
                expect("malformed-binary-node-not-rejected-with-InvalidNode", got, "raised InvalidNode", typ=typ, len=ln)
            else:
                if isinstance(got, str):
                    expect("well-formed-binary-node-rejected", got, want, typ=typ, len=ln)
                    continue
                code = {"kv": const.KV_TYPE, "branch": const.BRANCH_TYPE, "leaf": const.LEAF_TYPE}[want]
                expect("binary-node-type-wrong", got[0], code, typ=typ, len=ln)
                if want == "branch":
                    expect("branch-node-parts-wrong", (got[1], got[2]), (node[1:33], node[33:]))
                    expect("encode_branch_node-does-not-invert-parse", call(nd.encode_branch_node, got[1], got[2]), node)
                elif want == "leaf":
                    expect("leaf-node-parts-wrong", got[2], node[1:])
                    expect("encode_leaf_node-does-not-invert-parse", call(nd.encode_leaf_node, got[2]), node)
                elif want == "kv":
                    expect("kv-node-child-wrong", got[2], node[-32:])
                    if got[1]:
                        expect("encode_kv_node-does-not-invert-parse", call(nd.encode_kv_node, got[1], got[2]), node)
    return out


def stats(row, ctx):
    tags = [("calls:" + k, v) for k, v in COUNTS.items()]
    COUNTS.clear()
    tags.append("row:" + row["kind"])
    if row["kind"] == "shape":
        tags.append("shape:" + row["parse"])
    return tags


# ---- code -> spec: real calls on longer random inputs, recomputed by TLC
def record_calls(mod, rng, n):
    im = importlib.import_module
    nb, bn = im("trie.utils.nibbles"), im("trie.utils.binaries")
    rows = []
    for _ in range(n):
        ln = rng.choice([0, 1, 2, 6, 7, 8, 15, 16, 31, 32, 33, 63, 64, 65])
        nib = tuple(rng.randrange(16) for _ in range(ln))
        rows.append({"kind": "nib", "nib": list(nib), "hpT": list(nb.encode_nibbles(nib + (16,))),
                     "hpF": list(nb.encode_nibbles(nib)),
                     "dT": list(nb.decode_nibbles(nb.encode_nibbles(nib + (16,)))),
                     "dF": list(nb.decode_nibbles(nb.encode_nibbles(nib)))})
        ln = rng.choice([0, 1, 3, 4, 5, 7, 8, 9, 12, 16, 29, 64, 100, 255, 256])
        bits = bytes(rng.randrange(2) for _ in range(ln))
        kp = bn.encode_from_bin_keypath(bits)
        rows.append({"kind": "bits", "bits": list(bits), "keypath": list(kp),
                     "back": list(bn.decode_to_bin_keypath(kp))})
        b = bytes(rng.randrange(256) for _ in range(rng.choice([0, 1, 2, 5, 32])))
        rows.append({"kind": "bytes", "bytes": list(b), "nib": list(nb.bytes_to_nibbles(b)),
                     "bits": list(bn.encode_to_bin(b)), "bitsback": list(bn.decode_from_bin(bn.encode_to_bin(b)))})
    return rows


def record_inputs(mod, rows):
    """the real results for the inputs of the given recorded rows"""
    im = importlib.import_module
    nb, bn = im("trie.utils.nibbles"), im("trie.utils.binaries")
    for r in rows:
        if r["kind"] == "nib":
            nib = tuple(r["nib"])
            yield {"kind": "nib", "nib": list(nib), "hpT": list(nb.encode_nibbles(nib + (16,))),
                   "hpF": list(nb.encode_nibbles(nib)),
                   "dT": list(nb.decode_nibbles(nb.encode_nibbles(nib + (16,)))),
                   "dF": list(nb.decode_nibbles(nb.encode_nibbles(nib)))}
        elif r["kind"] == "bits":
            bits = bytes(r["bits"])
            kp = bn.encode_from_bin_keypath(bits)
            yield {"kind": "bits", "bits": list(bits), "keypath": list(kp), "back": list(bn.decode_to_bin_keypath(kp))}
        else:
            b = bytes(r["bytes"])
            yield {"kind": "bytes", "bytes": list(b), "nib": list(nb.bytes_to_nibbles(b)),
                   "bits": list(bn.encode_to_bin(b)), "bitsback": list(bn.decode_from_bin(bn.encode_to_bin(b)))}
