"""Replaying behaviours of Fog.tla on the real trie.fog.HexaryTrieFog."""
import ast

from .realize import unhp

COUNTS = {}


def count(k, n=1):
    COUNTS[k] = COUNTS.get(k, 0) + n


def make_context(mod):
    import importlib

    return (mod, importlib.import_module("trie.fog"), importlib.import_module("trie.exceptions"))


def contents(fog):
    """the unexplored prefixes of a real fog, read through serialize() with our own hex-prefix decoder"""
    ser = fog.serialize()
    head = b"HexaryTrieFog:"
    if not ser.startswith(head):
        raise ValueError("bad serialisation header")
    out = []
    for enc in ast.literal_eval(ser[len(head):].decode()):
        nibbles, term = unhp(enc)
        if term:
            raise ValueError("terminator flag in a serialised fog prefix")
        out.append(tuple(nibbles))
    return out


def do_reject(fog, ev, n, ctx):
    from . import badargs as ba

    mod, fogmod, exc = ctx
    typing = __import__("importlib").import_module("trie.typing")
    e, arg, kind = ev["entry"], ev["arg"], ev["kind"]
    bad = ba.pick(ba.NOT_SEQUENCE, n) if kind == "notsequence" else ba.pick(ba.BAD_NIBBLES, n)
    some = contents(fog)[0] if contents(fog) else ()
    try:
        if arg == "concatenated":
            # a malformed sequence built by concatenation onto a valid Nibbles object
            tail = ba.pick([(16,), (-1,), (None,), (b"F",), (3, 255)], n)
            made = typing.Nibbles((1, 2)) + tail
            if e == "explore":
                fog.explore(some, [made])
            return "accepted", repr(made)[:60]
        if e == "explore":
            if arg == "prefix":
                fog.explore(bad, ())
            else:
                fog.explore(some, [bad] if kind == "badnibble" else bad)
        elif e == "mark_all_complete":
            fog.mark_all_complete([bad])
        elif e == "nearest_unknown":
            fog.nearest_unknown(bad)
        elif e == "nearest_right":
            fog.nearest_right(bad)
        elif e == "Nibbles":
            typing.Nibbles(bad)
        else:
            return "harness-unknown-entry", e
    except Exception as x:  # noqa
        if ba.exc_matches(x, ev["exc"], exc):
            return "rejected", type(x).__name__
        return "wrongexc", type(x).__name__ + ": " + str(x)[:100]
    return "accepted", None


def replay_line(obj, ctx, opts):
    from .common import c18_relabel

    return c18_relabel(obj, replay_one(obj, ctx, opts), lambda o: replay_one(o, ctx, opts))


def replay_one(obj, ctx, opts):
    mod, fogmod, exc = ctx
    h, st = obj["h"], obj["st"]
    out = []
    fog = fogmod.HexaryTrieFog()
    olds = []      # (object, contents when created)
    for idx, ev in enumerate(h):
        is_last = idx == len(h) - 1
        olds.append((fog, contents(fog)))
        before = contents(fog)
        if ev["a"] == "reject":
            verdict, detail = do_reject(fog, ev, idx, ctx)
            what = {"entry": ev["entry"], "arg": ev["arg"], "kind": ev["kind"], "detail": detail}
            if verdict == "accepted":
                out.append(("C18", "ill-formed-call-not-refused", what))
            elif verdict != "rejected":
                out.append(("C18", "ill-formed-call-refused-with-the-wrong-exception", dict(what, expected=ev["exc"])))
            if contents(fog) != before:
                out.append(("C18", "refused-call-changed-state", what))
            continue
        try:
            if ev["a"] == "explore":
                segs = [tuple(s) for s in ev["segs"]]
                if idx % 2:
                    segs = list(reversed(segs))
                new = fog.explore(tuple(ev["p"]), segs if idx % 3 else tuple(segs))
            else:
                ps = [tuple(p) for p in ev["ps"]]
                if idx % 2:
                    ps = list(reversed(ps))
                new = fog.mark_all_complete(ps)
            raised = None
        except Exception as e:  # noqa
            new, raised = fog, e
        if is_last:
            if ev["ok"] and raised is not None:
                out.append(("C11", "valid-call-refused", {"event": ev, "exc": type(raised).__name__, "msg": str(raised)[:120]}))
            if not ev["ok"]:
                if raised is None:
                    out.append(("C11", "invalid-call-accepted", {"event": ev, "result": contents(new)}))
                elif type(raised).__name__ != "ValidationError":
                    out.append(("C11", "invalid-call-wrong-exception", {"event": ev, "exc": type(raised).__name__}))
            if contents(fog) != before:
                out.append(("C11", "receiver-modified", {"event": ev}))
            if raised is None and new is fog and ev["ok"] and ev["a"] == "explore" and \
                    [tuple(s) for s in ev["segs"]] != [()]:
                out.append(("mirror", "returned-the-receiver-itself", {"event": ev}))
        fog = new
    # final contents
    exp = sorted(tuple(p) for p in st["fog"])
    try:
        real = contents(fog)
    except Exception as e:  # noqa
        out.append(("C11", "serialize-unreadable", {"exc": str(e)[:100]}))
        return out
    if sorted(real) != exp:
        out.append(("C11", "fog-contents-wrong", {"real": real, "expected": exp}))
    if real != sorted(real):
        out.append(("mirror", "serialisation-not-sorted", {"real": real}))
    for a in real:
        for b_ in real:
            if a != b_ and a[:len(b_)] == b_:
                out.append(("C11", "not-an-antichain", {"a": a, "b": b_}))
    if fog.is_complete != (len(exp) == 0):
        out.append(("C11", "is_complete-wrong", {"is_complete": fog.is_complete, "left": exp}))
    try:
        again = fogmod.HexaryTrieFog.deserialize(fog.serialize())
        if not (again == fog) or contents(again) != real:
            out.append(("C11", "serialize-roundtrip-differs", {}))
    except Exception as e:  # noqa
        out.append(("C11", "deserialize-raised", {"exc": type(e).__name__}))
    # equality is by contents: a fog built along a different route with the same contents is equal
    other = fogmod.HexaryTrieFog().explore((), exp) if exp != [()] else fogmod.HexaryTrieFog()
    if not (other == fog):
        out.append(("C11", "equal-contents-compare-unequal", {"contents": exp}))
    # immutability of every earlier object
    for o, was in olds:
        if contents(o) != was:
            out.append(("C11", "earlier-fog-object-modified", {"was": was, "now": contents(o)}))
            break
    # queries
    for name, table in (("nearest_unknown", st["nu"]), ("nearest_right", st["nr"])):
        for e in table:
            q = tuple(e["q"])
            count(name)
            try:
                got = {"exc": "", "p": list(getattr(fog, name)(q))}
            except (exc.PerfectVisibility, exc.FullDirectionalVisibility) as ex:
                # by isinstance, not by name: an exception that is also an instance of the other
                # class would be caught by handlers of the other condition
                got = {"exc": "+".join(n for n, c in (("FullDirectionalVisibility", exc.FullDirectionalVisibility),
                                                      ("PerfectVisibility", exc.PerfectVisibility)) if isinstance(ex, c)),
                       "p": []}
            except Exception as ex:  # noqa
                got = {"exc": "other:" + type(ex).__name__, "p": []}
            if got not in e["acc"]:
                out.append(("C11", name + "-outside-contract", {"key": q, "got": got, "acceptable": e["acc"], "fog": exp}))
            elif "mirror" in e and got != e["mirror"]:
                out.append(("mirror", name + "-tie-break-differs", {"key": q, "got": got}))
    if len(exp) and not st["nu"]:
        out.append(("machinery", "no-queries-emitted", {}))
    # default argument of nearest_unknown is the empty key
    try:
        a = fog.nearest_unknown()
        b_ = fog.nearest_unknown(())
        if a != b_:
            out.append(("C11", "nearest_unknown-default-key-differs", {}))
    except exc.PerfectVisibility:
        pass
    return out


def stats(obj, ctx):
    tags = [("calls:" + k, v) for k, v in COUNTS.items()]
    COUNTS.clear()
    h, st = obj["h"], obj["st"]
    if not st["fog"]:
        tags.append("complete-fog")
    if h and not h[-1]["ok"]:
        tags.append("refused-" + h[-1]["a"])
    if any(e["a"] == "reject" for e in h[:-1]):
        tags.append("rejected-call-in-mid-history")
    if any(len(e["acc"]) > 1 for e in st["nu"]):
        tags.append("query-with-two-acceptable-neighbours")
    if any(a["exc"] == "FullDirectionalVisibility" for e in st["nr"] for a in e["acc"]):
        tags.append("nothing-to-the-right")
    if len({len(p) for p in st["fog"]}) > 1:
        tags.append("mixed-depth-fog")
    return tags
