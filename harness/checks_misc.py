"""Checks on the small state machines: ScratchDB (C17), HexaryTrieFog (C11)."""
from . import pipeline
from .common import Report

LEVEL = "model_checking"


def run_s2c(rep, module, cfg_text, replayer, opts=(), **kw):
    """owners=... : property ids whose clauses are verdicts of this check"""
    res = pipeline.spec_to_code(rep, module, cfg_text, replayer, opts, **kw)
    if kw.get("simulate"):
        rep.cov.setdefault("tlc_runs", []).append(
            {"module": module, "mode": "simulate", "behaviours": res.traces, "steps": res.generated,
             "depth": kw["simulate"]["depth"], "emitted": res.emitted, "wall_s": round(res.wall, 1)})
        return res
    rep.cov["exhaustive"] = True
    rep.cov.setdefault("tlc_runs", []).append(
        {"module": module, "mode": "exhaustive", "distinct_states": res.distinct, "transitions": res.generated,
         "depth": res.depth, "emitted": res.emitted, "wall_s": round(res.wall, 1)})
    return res


def need(rep, tags):
    for t in tags:
        if not rep.cov.get("case_tags", {}).get(t):
            rep.vacuity.append(f"no replayed behaviour was tagged '{t}'")


SCRATCH_CFG = """SPECIFICATION {spec}
CONSTANTS
  Keys <- {keys}
  Vals <- V2
  ExitKinds <- BothExits
INVARIANT ReadSeesLatest
INVARIANT ContainsAgrees
INVARIANT CacheIsLatest
PROPERTY WrappedOnlyOnCommit
PROPERTY NeverWrittenWhileOpen
PROPERTY CommitApplies
PROPERTY AbortKeeps
PROPERTY BufferEmptiedOnExit
VIEW View
ACTION_CONSTRAINT Emit
CHECK_DEADLOCK FALSE
"""


def c17(tier):
    rep = Report("C17", tier, LEVEL)
    rep.assumptions += ["the wrapped database is a dict nobody else writes during the behaviour",
                        "exhaustive over every initial content and every call sequence of the bounded universe"]
    R = "harness.scratchdb:replay_line"
    if tier == "quick":
        run_s2c(rep, "MC_ScratchDB", SCRATCH_CFG.format(spec="Spec", keys="K2"), R)
        # every behaviour of up to 5 calls (no state merging: the history is part of the state)
        run_s2c(rep, "MC_ScratchDB", SCRATCH_CFG.format(spec="SpecL6", keys="K2").replace("VIEW View", "VIEW ViewHist"), R)
        run_s2c(rep, "MC_ScratchDB", SCRATCH_CFG.format(spec="Spec", keys="K3"), R, simulate=dict(num=600, depth=12))
    else:
        run_s2c(rep, "MC_ScratchDB", SCRATCH_CFG.format(spec="Spec", keys="K3"), R)
        run_s2c(rep, "MC_ScratchDB", SCRATCH_CFG.format(spec="SpecL7", keys="K2").replace("VIEW View", "VIEW ViewHist"), R)
        run_s2c(rep, "MC_ScratchDB", SCRATCH_CFG.format(spec="Spec", keys="K3"), R, simulate=dict(num=6000, depth=16))
    need(rep, ["aborted-batch", "committed-batch", "deletes-requested", "write-then-delete", "read-raises-KeyError"])
    # code -> spec: generated histories on arbitrary byte keys and values
    import random

    from . import scratchdb_driver as sdd
    from .common import import_repo, seed

    mod = import_repo()
    rng = random.Random(seed() * 53 + 1)
    traces = [sdd.gen_trace(mod, rng) for _ in range(200 if tier == "quick" else 5000)]
    pipeline.code_to_spec(rep, "Trace_ScratchDB", "Trace_ScratchDB.cfg", traces,
                          consts=("TraceConsts_ScratchDB", sdd.consts), batches=8 if tier == "quick" else 16)
    return rep.finish()


FOG_CFG = """SPECIFICATION {spec}
CONSTANTS
  SegSets <- {segs}
  BadSegSeqs <- BadSeqs
  QueryKeys <- Q3
  Strangers <- Strange
INVARIANT IsAntichain
INVARIANT QueriesOK
INVARIANT AtMostOneContaining
INVARIANT Commute
INVARIANT ValidationExact
PROPERTY MarkIsExplores
PROPERTY RefusedUnchanged
VIEW {view}
ACTION_CONSTRAINT Emit
CHECK_DEADLOCK FALSE
"""


def c11(tier):
    rep = Report("C11", tier, LEVEL)
    rep.assumptions += ["nibbles restricted to {0,1,2,15} (plus 7 in queries); sub-segment lists from a fixed menu of leaf / "
                        "extension / branch / mixed-length shapes", "sortedcontainers is trusted"]
    R = "harness.fog:replay_line"
    if tier == "quick":
        run_s2c(rep, "MC_Fog", FOG_CFG.format(spec="SpecL4", segs="SegsSmall", view="View"), R)
        run_s2c(rep, "MC_Fog", FOG_CFG.format(spec="Spec", segs="Segs", view="View"), R,
                simulate=dict(num=24, depth=8))
    else:
        run_s2c(rep, "MC_Fog", FOG_CFG.format(spec="SpecL4", segs="Segs", view="View"), R)
        run_s2c(rep, "MC_Fog", FOG_CFG.format(spec="SpecL4", segs="SegsSmall", view="ViewHist"), R)
        run_s2c(rep, "MC_Fog", FOG_CFG.format(spec="Spec", segs="Segs", view="View"), R,
                simulate=dict(num=240, depth=10))
    need(rep, ["complete-fog", "refused-explore", "refused-mark", "query-with-two-acceptable-neighbours",
               "nothing-to-the-right", "mixed-depth-fog"])
    # code -> spec: generated exploration histories over all 16 nibbles
    import random

    from . import fog_driver as fd
    from .common import import_repo, seed

    mod = import_repo()
    rng = random.Random(seed() * 71 + 9)
    traces = [fd.gen_trace(mod, rng) for _ in range(200 if tier == "quick" else 4000)]
    pipeline.code_to_spec(rep, "Trace_Fog", "Trace_Fog.cfg", traces, consts=("TraceConsts_Fog", fd.consts),
                          batches=8 if tier == "quick" else 16)
    ec = rep.cov.setdefault("trace_event_counts", {})
    for t in traces:
        for e in t["ev"]:
            k = e["a"] + ("" if e["ok"] else "!refused")
            ec[k] = ec.get(k, 0) + 1
    recorded_fog_tests(rep, {"C11"})
    return rep.finish()


CHECKS = {"C17": c17, "C11": c11}


WALK_CFG = """SPECIFICATION {spec}
CONSTANTS
  Keys <- {keys}
  Vals <- {vals}
  MaxLive = {maxlive}
  MaxMuts = {muts}
  CacheModes <- {cache}
  PruneModes <- {prune}
  StartAll = {startall}
  WalkFeatures <- {features}
INVARIANT Antichain
INVARIANT NothingInvented
INVARIANT WalkComplete
INVARIANT ExactWhenStatic
INVARIANT DepthBounded
PROPERTY MissingOnlyViaCache
PROPERTY Terminates
VIEW View
ACTION_CONSTRAINT Emit
CHECK_DEADLOCK FALSE
"""


def walk_cfg(spec="Spec", keys="KWalk", vals="VWalk", maxlive=3, muts=1, cache="Both", prune="Both",
             startall="FALSE", features="NoWalkFeatures"):
    return WALK_CFG.format(spec=spec, keys=keys, vals=vals, maxlive=maxlive, muts=muts, cache=cache,
                           prune=prune, startall=startall, features=features)


def c09(tier):
    rep = Report("C09", tier, LEVEL)
    rep.assumptions += ["the trie under the walker is Canon(contents) and the readable node bodies are Stored(Canon) "
                        "when pruning, everything ever written otherwise (properties C02/C04/C06; re-checked here "
                        "because the replay runs a real trie)", "the number of mutations during one walk is bounded"]
    R = "harness.fogwalk:replay_line"
    if tier == "quick":
        run_s2c(rep, "MC_FogWalk", walk_cfg(maxlive=3, muts=1), R)
        run_s2c(rep, "MC_FogWalk", walk_cfg(keys="KWalk2", vals="VLongOnly", maxlive=4, muts=3, startall="TRUE",
                                            features="AllWalkFeatures"), R, simulate=dict(num=36, depth=30))
        # batches (committed / aborted) and rewrites between the rounds, pruning trie, two keys
        run_s2c(rep, "MC_FogWalk", walk_cfg(keys="KWalkB", vals="VLongOnly", maxlive=2, muts=2, prune="OnlyT",
                                            startall="TRUE", features="AllWalkFeatures"), R)
    else:
        run_s2c(rep, "MC_FogWalk", walk_cfg(maxlive=3, muts=2), R, timeout=3400)
        run_s2c(rep, "MC_FogWalk", walk_cfg(keys="KWalk2", vals="VLongOnly", maxlive=3, muts=1), R)
        run_s2c(rep, "MC_FogWalk", walk_cfg(keys="KWalk2", vals="VWalk", maxlive=5, muts=4, startall="TRUE",
                                            features="AllWalkFeatures"), R, simulate=dict(num=600, depth=40))
        run_s2c(rep, "MC_FogWalk", walk_cfg(keys="KWalkB", vals="VLongOnly", maxlive=2, muts=3, startall="TRUE",
                                            features="AllWalkFeatures"), R)
    need(rep, ["round-through-simulated-node", "stale-cache-entry-dropped", "round-via-frontier-cache",
               "mutation-during-walk", "walk-completed-within-behaviour", "committed-batch-during-walk",
               "aborted-batch-during-walk", "calls:sweeping-walker"])
    return rep.finish()


CHECKS["C09"] = c09


BIN_CFG = """SPECIFICATION {spec}
CONSTANTS
  Keys <- {keys}
  Vals <- {vals}
  LookupKeys <- {look}
  MaxLive = {maxlive}
{inv}
{prop}
VIEW {view}
{emit}
CHECK_DEADLOCK FALSE
"""
BIN12 = ["Canonical", "MapOK", "PrefixFree", "EmptyIsBlank", "Readable", "PastRootsReadable"]
BIN13 = ["BranchOrRefusal", "BranchConfirms", "BranchUnforgeable", "ExistsIffPrefix", "TrieNodesExact",
         "WitnessSound", "WitnessSufficient", "WitnessRefusal"]


def bin_cfg(spec="SpecL5", keys="KSmall", vals="V2", look="LSmall", maxlive=3, inv=BIN12, prop=("RefusalRule", "AppendOnly"),
            view="View", emit="ACTION_CONSTRAINT Emit"):
    return BIN_CFG.format(spec=spec, keys=keys, vals=vals, look=look, maxlive=maxlive, view=view, emit=emit,
                          inv="\n".join("INVARIANT " + i for i in inv), prop="\n".join("PROPERTY " + p for p in prop))


def c12(tier):
    rep = Report("C12", tier, LEVEL)
    rep.assumptions += ["keys are whole bytes, 1-3 (4) bytes long; hash = identity in the model; database is a dict"]
    R = "harness.binary:replay_line"
    # with Checkout (trie.root_hash / trie.root_node pointed back at any earlier root; forked histories)
    run_s2c(rep, "MC_Binary", bin_cfg(spec="SpecCL4" if tier == "quick" else "SpecCL5", view="ViewFull"), R)
    if tier == "quick":
        run_s2c(rep, "MC_Binary", bin_cfg(spec="SpecL5", view="ViewFull"), R)
        run_s2c(rep, "MC_Binary", bin_cfg(spec="Spec", keys="KFull", look="LFull", vals="V3", maxlive=5,
                                          inv=BIN12 + ["EmitSt"], emit=""), R, simulate=dict(num=480, depth=14))
    else:
        run_s2c(rep, "MC_Binary", bin_cfg(spec="SpecL6", keys="KFull", look="LFull", vals="V3", maxlive=4), R)
        run_s2c(rep, "MC_Binary", bin_cfg(spec="SpecL6", view="ViewFull"), R)
        run_s2c(rep, "MC_Binary", bin_cfg(spec="Spec", keys="KFull", look="LFull", vals="V3", maxlive=6,
                                          inv=BIN12 + ["EmitSt"], emit=""), R, simulate=dict(num=4800, depth=16))
    # a database write that raises in the middle of a call (the call raises: root and contents must
    # be unchanged, and the trie must go on working): every behaviour up to a small depth + simulation
    run_s2c(rep, "MC_Binary", bin_cfg(spec="SpecFL4" if tier == "quick" else "SpecFL5", view="ViewHist",
                                      keys="KTinyB", look="LTinyB", inv=["Canonical", "MapOK"], prop=("AppendOnly",)), R)
    run_s2c(rep, "MC_Binary", bin_cfg(spec="SpecF", keys="KFull", look="LFull", vals="V2", maxlive=5,
                                      inv=["Canonical", "EmitSt"], prop=(), emit=""), R,
            simulate=dict(num=240 if tier == "quick" else 4800, depth=12))
    need(rep, ["last:set-refused", "last:delsub", "last:del", "last:checkout", "has-kv", "has-branch", "has-leaf",
               "failed-write-in-mid-history"])
    binary_traces(rep, tier, {"C12"})
    if tier == "thorough":
        recorded_binary_tests(rep, {"C12"})
    return rep.finish()


def c13(tier):
    rep = Report("C13", tier, LEVEL)
    rep.assumptions += ["keys / prefixes are whole bytes; corrupted branches are built from the genuine branch "
                        "(node removed, truncated, node altered, branch of another key) and a menu of claimed values"]
    R = "harness.binary:replay_line"
    inv = BIN13 + ["EmitSt13"]
    if tier == "quick":
        run_s2c(rep, "MC_Binary", bin_cfg(spec="SpecL5", inv=inv, prop=(), emit=""), R)
        run_s2c(rep, "MC_Binary", bin_cfg(spec="Spec", keys="KFull", look="LFull", vals="V2", maxlive=5, inv=inv,
                                          prop=(), emit=""), R, simulate=dict(num=96, depth=12))
    else:
        run_s2c(rep, "MC_Binary", bin_cfg(spec="SpecL6", keys="KFull", look="LFull", vals="V2", maxlive=4, inv=inv,
                                          prop=(), emit=""), R)
        run_s2c(rep, "MC_Binary", bin_cfg(spec="Spec", keys="KFull", look="LFull", vals="V3", maxlive=6, inv=inv,
                                          prop=(), emit=""), R, simulate=dict(num=960, depth=14))
    need(rep, ["branch-refused", "witness-refused", "has-kv", "has-branch", "calls:if_branch_valid"])
    return rep.finish()


CHECKS["C12"] = c12
CHECKS["C13"] = c13


SMT_CFG = """SPECIFICATION Spec
CONSTANTS
  Depth = {depth}
  Keys <- {keys}
  Vals <- VX
  Defaults <- {defaults}
  MaxOps = {ops}
  Truncations <- {trunc}
INVARIANT IsFull
INVARIANT GetMatches
INVARIANT ClearedIsInitial
INVARIANT BranchVerifies
INVARIANT ProofInSync
PROPERTY UpdateListIsPath
PROPERTY ShortestListSuffices
VIEW View
{emit}
CHECK_DEADLOCK FALSE
"""


def smt_cfg(depth=8, keys="K8s", defaults="DBoth", ops=3, trunc="TFull8", emit="ACTION_CONSTRAINT Emit"):
    return SMT_CFG.format(depth=depth, keys=keys, defaults=defaults, ops=ops, trunc=trunc, emit=emit)


def c14(tier):
    rep = Report("C14", tier, LEVEL)
    rep.assumptions += ["exhaustive for key sizes 1, 2 and 8 (thorough: 32) over small key universes; collapsed normal form identifies subtrees with equal "
                        "Merkle hashes (collisions are outside the model)"]
    R = "harness.smt:replay_line"
    if tier == "quick":
        run_s2c(rep, "MC_SMT", smt_cfg(ops=3), R)
        run_s2c(rep, "MC_SMT", smt_cfg(depth=16, keys="K16", ops=2, trunc="TFull16"), R)
        run_s2c(rep, "MC_SMT", smt_cfg(keys="K8", ops=12, emit="INVARIANT EmitSt"), R, simulate=dict(num=96, depth=12))
        run_s2c(rep, "MC_SMT", smt_cfg(depth=64, keys="K64", ops=2, trunc="TFull64", defaults="DBlank"), R)
    else:
        run_s2c(rep, "MC_SMT", smt_cfg(depth=64, keys="K64", ops=2, trunc="TFull64"), R)
        run_s2c(rep, "MC_SMT", smt_cfg(depth=256, keys="K256", ops=2, trunc="TFull256"), R)
        run_s2c(rep, "MC_SMT", smt_cfg(keys="K8", ops=4), R)
        run_s2c(rep, "MC_SMT", smt_cfg(depth=16, keys="K16", ops=3, trunc="TFull16"), R)
        run_s2c(rep, "MC_SMT", smt_cfg(depth=16, keys="K16", ops=16, trunc="TFull16", emit="INVARIANT EmitSt"), R,
                simulate=dict(num=960, depth=16))
    need(rep, ["non-blank-default", "blank-value-written", "absent-key", "calls:calc_root"])
    smt_traces(rep, tier, {"C14"}, quick_sizes=(1, 2, 20))
    if tier == "thorough":
        recorded_smt_tests(rep, {"C14"})
    return rep.finish()


def c15(tier):
    rep = Report("C15", tier, LEVEL)
    rep.assumptions += ["exhaustive for key sizes 1, 2, 8 and 32 over small key universes (tracked key = any member, "
                        "truncation lengths from a menu covering every bit position that is a branch point in the "
                        "universe, one below and one above)"]
    R = "harness.smt:replay_line"
    if tier == "quick":
        run_s2c(rep, "MC_SMT", smt_cfg(ops=2, trunc="T8"), R)
        run_s2c(rep, "MC_SMT", smt_cfg(ops=3, trunc="T8few", defaults="DBlank", keys="K8t"), R)
        run_s2c(rep, "MC_SMT", smt_cfg(depth=16, keys="K16", ops=2, trunc="T16few", defaults="DBlank"), R)
        run_s2c(rep, "MC_SMT", smt_cfg(keys="K8", ops=12, trunc="T8", emit="INVARIANT EmitSt"), R,
                simulate=dict(num=96, depth=12))
        run_s2c(rep, "MC_SMT", smt_cfg(depth=64, keys="K64", ops=2, trunc="T64few", defaults="DBlank"), R)
    else:
        run_s2c(rep, "MC_SMT", smt_cfg(depth=64, keys="K64", ops=2, trunc="T64few"), R)
        run_s2c(rep, "MC_SMT", smt_cfg(depth=256, keys="K256", ops=2, trunc="T256few", defaults="DBlank"), R)
        run_s2c(rep, "MC_SMT", smt_cfg(keys="K8", ops=3, trunc="T8few"), R)
        run_s2c(rep, "MC_SMT", smt_cfg(depth=16, keys="K16", ops=3, trunc="T16few", defaults="DBlank"), R)
        run_s2c(rep, "MC_SMT", smt_cfg(depth=16, keys="K16", ops=16, trunc="T16few", emit="INVARIANT EmitSt"), R,
                simulate=dict(num=960, depth=16))
    need(rep, ["proof-tracked", "truncated-list-refused", "calls:proof.update"])
    smt_traces(rep, tier, {"C15"}, quick_sizes=(1, 7, 20))
    return rep.finish()


CHECKS["C14"] = c14
CHECKS["C15"] = c15


CODEC_CFG = """SPECIFICATION Spec
CONSTANTS
  Domain <- {dom}
INVARIANT HPRoundTrip
INVARIANT HPInjective
INVARIANT NibbleBytes
INVARIANT BitBytes
INVARIANT KeypathRoundTrip
INVARIANT EmitRow
CHECK_DEADLOCK FALSE
"""


def c16(tier):
    import json
    import os
    import random

    from . import codec, tlc
    from .common import import_repo, seed, MachineryError

    rep = Report("C16", tier, "exploration")
    rep.assumptions += ["the definitions in spec/Codec.tla are a faithful reading of Yellow Paper appendix C and of the "
                        "binary node format", "exhaustive within the bounded domain, random beyond it"]
    run_s2c(rep, "MC_Codec" if tier == "quick" else "MC_CodecFull", CODEC_CFG.format(dom="DQuick" if tier == "quick" else "DFull"),
            "harness.codec:replay_line", timeout=3400)
    rep.cov["exhaustive"] = True
    rep.cov["table_rows_checked"] = rep.cov.pop("behaviours_replayed", 0)
    rep.cov["distinct_rows"] = rep.cov.pop("distinct_final_states_replayed", 0)
    need(rep, ["row:nib", "row:bits", "row:bytes", "shape:InvalidNode", "shape:kv", "shape:branch", "shape:leaf"])
    # (ii) longer random inputs through the real functions, recomputed by TLC
    mod = import_repo()
    rows = codec.record_calls(mod, random.Random(seed() * 31 + 5), 150 if tier == "quick" else 600)
    for i, r in enumerate(rows):
        r["id"] = i + 1
    wd = tlc.fresh_workdir("codec_trace")
    path = os.path.join(wd, "rows.json")
    with open(path, "w") as fh:
        json.dump(rows, fh)
    fails, done = [], []

    def on_emit(line):
        o = tlc.parse_emit(line)
        (fails if "fail" in o else done).append(o.get("fail", o.get("done")))

    res = tlc.run("Trace_Codec", None, cfg_text="SPECIFICATION Spec\nCONSTANTS\n  Domain <- TraceDomain\n"
                  "INVARIANT Check\nINVARIANT Done\nCHECK_DEADLOCK FALSE\n", workers=8, on_emit=on_emit,
                  env={"TRACE_FILE": path}, wd=wd, timeout=3000)
    tlc.require_clean(res, "Trace_Codec")
    if len(set(done)) != len(rows):
        raise MachineryError(f"Trace_Codec examined {len(set(done))} of {len(rows)} recorded calls")
    rep.add("recorded_calls_recomputed_by_tlc", len(rows))
    rep.cov["table_rows_checked"] += len(rows)
    rep.cov["distinct_rows"] += len({json.dumps({k: v for k, v in r.items() if k != "id"}) for r in rows})
    for i in sorted(set(fails)):
        rep.violation("real-result-differs-from-the-definition", {"call": rows[i - 1]}, {"kind": "codec-row", "row": rows[i - 1]})
    rep.sample({"direction": "code->spec", "recorded_call": rows[seed() % len(rows)]}, cap=6)
    # (iii) hexary nodes read back from a database classify as written: a small hexary run
    from . import checks_hexary as ch

    ch.run_spec_to_code(rep, ch.cfg(keys="KFull", look="LFull", vals="VFull", maxlive=4, features="FDirect",
                                    invariants=["Canonical"], level=3 if tier == "quick" else 4, emit="EmitAll"),
                        ("classify",), owners={"C16"})
    rep.cov["table_rows_checked"] += rep.cov.pop("behaviours_replayed", 0)
    rep.cov["distinct_rows"] += rep.cov.pop("distinct_final_states_replayed", 0)
    rep.cov["evaluations"] = rep.cov["table_rows_checked"] + rep.cov.get("real_calls_in_state_tables", 0)
    rep.cov["distinct_nontrivial"] = rep.cov["distinct_rows"]
    rep.cov["rule"] = ("rows = members of the bounded domain enumerated by TLC from Codec.tla (every nibble sequence up "
                       "to the stated length with and without terminator, every bit string up to the stated length, "
                       "every byte string of length <= 1 (2), every (type byte, length) shape), plus recorded real calls "
                       "on longer random inputs recomputed by TLC, plus hexary behaviours whose database nodes are "
                       "re-classified; distinct = distinct rows / distinct final states; all rows are non-trivial "
                       "(each is a different input)")
    return rep.finish()


CHECKS["C16"] = c16


def c18(tier):
    from . import checks_hexary as ch

    rep = Report("C18", tier, LEVEL)
    rep.assumptions += ["the argument kinds are a finite list (spec tables HexRejects, BinRejects, SmtRejects, FogRejects); "
                        "for each kind the harness cycles through concrete ill-typed values (None, int, str, bytearray, "
                        "list, tuple, memoryview, float, dict; lengths one short / one long / empty)",
                        "not demanded (and not judged): the node-hash argument of the four branch helpers and the value "
                        "argument of SparseMerkleProof.update"]
    own = {"C18"}
    q = tier == "quick"
    inv = ["Canonical", "PruneExact", "RcTrue", "Readable"]
    base = dict(features="FReject", invariants=inv, properties=["RejectedUnchanged"], emit="EmitAll")
    # hexary: a refused call from every reachable state (the call is a self-loop of the model) ...
    ch.run_spec_to_code(rep, ch.cfg(**dict(base, level=4 if q else 5, vals="VFull")), (), owners=own)
    # ... and refused calls in the middle of histories: every behaviour up to a small depth, and long random ones
    ch.run_spec_to_code(rep, ch.cfg(**dict(base, level=3 if q else 4, view="ViewHist", keys="KThresh", look="LThresh",
                                          vals="VShare", prune="OnlyPrune")), (), owners=own)
    sim = dict(base, features="FRejectNoop", keys="KFull", look="LFull", vals="VFull", maxlive=4, level=None, emit=None,
               invariants=inv + ["EmitStAll"])
    ch.run_spec_to_code(rep, ch.cfg(**sim), (), owners=own, simulate=dict(num=24 if q else 144, depth=10 if q else 12))
    # binary trie and branch helpers
    Rb = "harness.binary:replay_line"
    run_s2c(rep, "MC_Binary", bin_cfg(spec="SpecRL4" if q else "SpecRL5", inv=["Canonical", "MapOK"], prop=()), Rb, owners=own)
    run_s2c(rep, "MC_Binary", bin_cfg(spec="SpecRL3" if q else "SpecRL4", inv=["Canonical"], prop=(), view="ViewHist"), Rb,
            owners=own)
    run_s2c(rep, "MC_Binary", bin_cfg(spec="SpecR", keys="KFull", look="LFull", maxlive=5, inv=["Canonical", "EmitSt"],
                                      prop=(), emit=""), Rb, owners=own, simulate=dict(num=120 if q else 2400, depth=12))
    # sparse Merkle tree, calc_root, proof
    Rs = "harness.smt:replay_line"
    run_s2c(rep, "MC_SMT", smt_cfg(ops=2, trunc="TFull8").replace("SPECIFICATION Spec", "SPECIFICATION SpecR"), Rs,
            owners=own)
    run_s2c(rep, "MC_SMT", smt_cfg(depth=16, keys="K16", ops=12, trunc="TFull16", emit="INVARIANT EmitSt")
            .replace("SPECIFICATION Spec", "SPECIFICATION SpecR"), Rs, owners=own,
            simulate=dict(num=96 if q else 1200, depth=12))
    # fog and Nibbles
    Rf = "harness.fog:replay_line"
    run_s2c(rep, "MC_Fog", FOG_CFG.format(spec="SpecRL3" if q else "SpecRL4", segs="SegsSmall", view="View"), Rf, owners=own)
    run_s2c(rep, "MC_Fog", FOG_CFG.format(spec="SpecR", segs="Segs", view="View"), Rf, owners=own,
            simulate=dict(num=24 if q else 240, depth=8))
    need(rep, ["rejected-call-in-mid-history"])
    acts = rep.cov.get("replayed_last_action_counts", {})
    if not acts.get("reject"):
        rep.vacuity.append("no behaviour ended in a rejected call")
    return rep.finish()


CHECKS["C18"] = c18


def smt_traces(rep, tier, owners, quick_sizes=(1, 2, 7, 8, 20, 30)):
    """code -> spec for C14 / C15: generated histories of the real tree and proof, key sizes 1..32"""
    import random

    from . import smt_driver as sd
    from .common import import_repo, seed

    mod = import_repo()
    rng = random.Random(seed() * 131 + 7)
    # (the JSON reader of TLC's Json module refuses nesting deeper than 255: the decoded tree of a
    # 31- or 32-byte key does not fit; those sizes are covered by the depth-256 spec->code runs)
    sizes = list(quick_sizes) if tier == "quick" else [1, 2, 3, 5, 7, 8, 9, 13, 16, 20, 24, 28, 30]
    per = 10 if tier == "quick" else 60
    counts = {}
    from concurrent.futures import ThreadPoolExecutor

    made = {ks: [sd.gen_trace(mod, rng, ks) for _ in range(per)] for ks in sizes}
    for ks, ts in made.items():
        for t in ts:
            if t.get("broken") and "C14" in owners:
                rep.violation("C14.tree-is-not-a-sparse-tree-over-its-default",
                              {"key_size": ks, "default": t["dflt"], "calls": t["calls"][:6]},
                              {"kind": "smt-calls", "key_size": ks, "default": t["dflt"], "calls": t["calls"]})
    batches = {ks: [t for t in ts if t["ev"]] for ks, ts in made.items()}

    def one(ks):
        pipeline.code_to_spec(rep, "Trace_SMT", "Trace_SMT.cfg", batches[ks], consts=("TraceConsts_SMT", sd.consts),
                              owners=owners, batches=1 if tier == "quick" else 4, heap="3g")
    with ThreadPoolExecutor(6) as ex:
        list(ex.map(one, sizes))
    for traces in batches.values():
        for t in traces:
            for e in t["ev"]:
                key = e["a"] + ("!refused" if e["refused"] else "")
                counts[key] = counts.get(key, 0) + 1
    rep.cov.setdefault("trace_event_counts", {}).update(counts)
    rep.cov["trace_key_sizes"] = sizes


def binary_traces(rep, tier, owners):
    """code -> spec for C12: generated histories of the real binary trie on arbitrary byte keys"""
    import random

    from . import binary_driver as bd
    from .common import import_repo, seed

    mod = import_repo()
    rng = random.Random(seed() * 977 + 3)
    traces = [bd.gen_trace(mod, rng) for _ in range(150 if tier == "quick" else 800)]
    pipeline.code_to_spec(rep, "Trace_Binary", "Trace_Binary.cfg", traces, consts=("TraceConsts_Binary", bd.consts),
                          owners=owners, batches=8 if tier == "quick" else 16)
    counts = rep.cov.setdefault("trace_event_counts", {})
    for t in traces:
        for e in t["ev"]:
            key = e["a"] + ("" if e["ok"] is True else "!refused")
            counts[key] = counts.get(key, 0) + 1


def recorded_binary_tests(rep, owners):
    """the repository's own BinaryTrie tests run under harness/recorder_binary.py (a pytest plugin
    living in /verif; nothing in /repo is touched); what they did is validated by TLC against
    Trace_Binary.tla like any other trace"""
    import json
    import os
    import subprocess
    import sys

    from . import binary_driver as bd
    from .common import REPO, VERIF, MachineryError, scratch

    out = os.path.join(scratch(), "recorded_binary.json")
    env = dict(os.environ, PYTHONPATH=VERIF + os.pathsep + REPO, VERIF_RECORD_OUT=out, PYTHONHASHSEED="0",
               HYPOTHESIS_STORAGE_DIRECTORY=os.path.join(scratch(), "hypothesis"))
    p = subprocess.run([sys.executable, "-m", "pytest", "-q", "-p", "no:cacheprovider", "-p", "harness.recorder_binary",
                        "--timeout=900", "tests/core/test_bin_trie.py"],
                       cwd=REPO, env=env, capture_output=True, text=True)
    if not os.path.exists(out):
        raise MachineryError("the binary recorder wrote nothing:\n" + p.stdout[-600:] + p.stderr[-300:])
    d = json.load(open(out))
    traces = d["traces"]
    if len(traces) < 10:
        raise MachineryError(f"only {len(traces)} executions of the repository's binary trie tests were recorded")
    pipeline.code_to_spec(rep, "Trace_Binary", "Trace_Binary.cfg", traces, consts=("TraceConsts_Binary", bd.consts),
                          owners=owners, batches=4)
    last = p.stdout.strip().splitlines()[-1] if p.stdout.strip() else ""
    rep.cov["repository_tests_recorded"] = {
        "pytest_summary": last, "executions_validated": len(traces), "tries_followed": d["tries_followed"],
        "not_recorded": d["skipped"], "tests": sorted({t["test"].split("::")[-1].split("[")[0] for t in traces})}
    if p.returncode != 0:
        rep.note("the repository's binary trie tests did not all pass under the recorder: " + last)


def recorded_smt_tests(rep, owners):
    """the repository's own SparseMerkleTree tests under harness/recorder_smt.py, validated by TLC
    against Trace_SMT.tla (one TLC run per key size)"""
    import json
    import os
    import subprocess
    import sys
    from concurrent.futures import ThreadPoolExecutor

    from . import smt_driver as sd
    from .common import REPO, VERIF, MachineryError, scratch

    out = os.path.join(scratch(), "recorded_smt.json")
    env = dict(os.environ, PYTHONPATH=VERIF + os.pathsep + REPO, VERIF_RECORD_OUT=out, PYTHONHASHSEED="0",
               HYPOTHESIS_STORAGE_DIRECTORY=os.path.join(scratch(), "hypothesis"))
    p = subprocess.run([sys.executable, "-m", "pytest", "-q", "-p", "no:cacheprovider", "-p", "harness.recorder_smt",
                        "--timeout=900", "tests/core/test_smt.py"],
                       cwd=REPO, env=env, capture_output=True, text=True)
    if not os.path.exists(out):
        raise MachineryError("the SMT recorder wrote nothing:\n" + p.stdout[-600:] + p.stderr[-300:])
    d = json.load(open(out))
    traces = d["traces"]
    if len(traces) < 10:
        raise MachineryError(f"only {len(traces)} executions of the repository's sparse tree tests were recorded")
    by_depth = {}
    for t in traces:
        by_depth.setdefault(t["depth"], []).append(t)

    def one(depth):
        pipeline.code_to_spec(rep, "Trace_SMT", "Trace_SMT.cfg", by_depth[depth], consts=("TraceConsts_SMT", sd.consts),
                              owners=owners, batches=1, heap="3g")
    with ThreadPoolExecutor(6) as ex:
        list(ex.map(one, sorted(by_depth)))
    last = p.stdout.strip().splitlines()[-1] if p.stdout.strip() else ""
    rep.cov["repository_tests_recorded"] = {
        "pytest_summary": last, "executions_validated": len(traces), "trees_followed": d["tries_followed"],
        "key_sizes": sorted(k // 8 for k in by_depth), "not_recorded": d["skipped"],
        "tests": sorted({t["test"].split("::")[-1].split("[")[0] for t in traces})}
    if p.returncode != 0:
        rep.note("the repository's sparse tree tests did not all pass under the recorder: " + last)


def recorded_fog_tests(rep, owners):
    """the repository's own tests that use HexaryTrieFog (test_fog.py and the walk tests) under
    harness/recorder_fog.py, validated by TLC against Trace_Fog.tla"""
    import json
    import os
    import subprocess
    import sys

    from . import fog_driver as fd
    from .common import REPO, VERIF, MachineryError, scratch

    out = os.path.join(scratch(), "recorded_fog.json")
    env = dict(os.environ, PYTHONPATH=VERIF + os.pathsep + REPO, VERIF_RECORD_OUT=out, PYTHONHASHSEED="0",
               HYPOTHESIS_STORAGE_DIRECTORY=os.path.join(scratch(), "hypothesis"))
    p = subprocess.run([sys.executable, "-m", "pytest", "-q", "-p", "no:cacheprovider", "-p", "harness.recorder_fog",
                        "--timeout=900", "tests/core/test_fog.py", "tests/core/test_hexary_trie_walk.py"],
                       cwd=REPO, env=env, capture_output=True, text=True)
    if not os.path.exists(out):
        raise MachineryError("the fog recorder wrote nothing:\n" + p.stdout[-600:] + p.stderr[-300:])
    d = json.load(open(out))
    traces = d["traces"]
    if len(traces) < 10:
        raise MachineryError(f"only {len(traces)} fog lineages of the repository's tests were recorded")
    pipeline.code_to_spec(rep, "Trace_Fog", "Trace_Fog.cfg", traces, consts=("TraceConsts_Fog", fd.consts),
                          owners=owners, batches=8)
    last = p.stdout.strip().splitlines()[-1] if p.stdout.strip() else ""
    rep.cov["repository_tests_recorded"] = {
        "pytest_summary": last, "lineages_validated": len(traces), "fresh_fogs_followed": d["tries_followed"],
        "queries_recorded": sum(len(e["st"]["nu"]) + len(e["st"]["nr"]) for t in traces for e in t["ev"]),
        "not_recorded": d["skipped"], "tests": sorted({t["test"].split("::")[-1].split("[")[0] for t in traces})}
    if p.returncode != 0:
        rep.note("the repository's fog tests did not all pass under the recorder: " + last)
