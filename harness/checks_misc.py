"""Checks on the small state machines: ScratchDB (C17), HexaryTrieFog (C11)."""
from . import pipeline
from .common import Report

LEVEL = "model_checking"


def run_s2c(rep, module, cfg_text, replayer, opts=(), **kw):
    res = pipeline.spec_to_code(rep, module, cfg_text, replayer, opts, **kw)
    if kw.get("simulate"):
        rep.cov.setdefault("tlc_runs", []).append(
            {"module": module, "mode": "simulate", "behaviours": res.traces, "steps": res.generated,
             "depth": kw["simulate"]["depth"], "emitted": res.emitted, "wall_s": round(res.wall, 1)})
        return res
    rep.cov["exhaustive"] = True
    rep.cov.setdefault("tlc_runs", []).append(
        {"module": module, "mode": "exhaustive", "distinct_states": res.distinct, "transitions": res.generated,
         "depth": res.depth, "emitted": res.emitted, "wall_s": round(res.wall, 1)})
    return res


def need(rep, tags):
    for t in tags:
        if not rep.cov.get("case_tags", {}).get(t):
            rep.vacuity.append(f"no replayed behaviour was tagged '{t}'")


SCRATCH_CFG = """SPECIFICATION {spec}
CONSTANTS
  Keys <- {keys}
  Vals <- V2
  ExitKinds <- BothExits
INVARIANT ReadSeesLatest
INVARIANT ContainsAgrees
INVARIANT CacheIsLatest
PROPERTY WrappedOnlyOnCommit
PROPERTY NeverWrittenWhileOpen
PROPERTY CommitApplies
PROPERTY AbortKeeps
PROPERTY BufferEmptiedOnExit
VIEW View
ACTION_CONSTRAINT Emit
CHECK_DEADLOCK FALSE
"""


def c17(tier):
    rep = Report("C17", tier, LEVEL)
    rep.assumptions += ["the wrapped database is a dict nobody else writes during the behaviour",
                        "exhaustive over every initial content and every call sequence of the bounded universe"]
    R = "harness.scratchdb:replay_line"
    if tier == "quick":
        run_s2c(rep, "MC_ScratchDB", SCRATCH_CFG.format(spec="Spec", keys="K2"), R)
        # every behaviour of up to 5 calls (no state merging: the history is part of the state)
        run_s2c(rep, "MC_ScratchDB", SCRATCH_CFG.format(spec="SpecL6", keys="K2").replace("VIEW View", "VIEW ViewHist"), R)
        run_s2c(rep, "MC_ScratchDB", SCRATCH_CFG.format(spec="Spec", keys="K3"), R, simulate=dict(num=600, depth=12))
    else:
        run_s2c(rep, "MC_ScratchDB", SCRATCH_CFG.format(spec="Spec", keys="K3"), R)
        run_s2c(rep, "MC_ScratchDB", SCRATCH_CFG.format(spec="SpecL7", keys="K2").replace("VIEW View", "VIEW ViewHist"), R)
        run_s2c(rep, "MC_ScratchDB", SCRATCH_CFG.format(spec="Spec", keys="K3"), R, simulate=dict(num=20000, depth=16))
    need(rep, ["aborted-batch", "committed-batch", "deletes-requested", "write-then-delete", "read-raises-KeyError"])
    return rep.finish()


FOG_CFG = """SPECIFICATION {spec}
CONSTANTS
  SegSets <- {segs}
  BadSegSeqs <- BadSeqs
  QueryKeys <- Q3
  Strangers <- Strange
INVARIANT IsAntichain
INVARIANT QueriesOK
INVARIANT AtMostOneContaining
INVARIANT Commute
INVARIANT ValidationExact
PROPERTY MarkIsExplores
PROPERTY RefusedUnchanged
VIEW {view}
ACTION_CONSTRAINT Emit
CHECK_DEADLOCK FALSE
"""


def c11(tier):
    rep = Report("C11", tier, LEVEL)
    rep.assumptions += ["nibbles restricted to {0,1,2,15} (plus 7 in queries); sub-segment lists from a fixed menu of leaf / "
                        "extension / branch / mixed-length shapes", "sortedcontainers is trusted"]
    R = "harness.fog:replay_line"
    if tier == "quick":
        run_s2c(rep, "MC_Fog", FOG_CFG.format(spec="SpecL4", segs="SegsSmall", view="View"), R)
        run_s2c(rep, "MC_Fog", FOG_CFG.format(spec="Spec", segs="Segs", view="View"), R,
                simulate=dict(num=24, depth=8))
    else:
        run_s2c(rep, "MC_Fog", FOG_CFG.format(spec="SpecL5", segs="Segs", view="View"), R)
        run_s2c(rep, "MC_Fog", FOG_CFG.format(spec="SpecL4", segs="SegsSmall", view="ViewHist"), R)
        run_s2c(rep, "MC_Fog", FOG_CFG.format(spec="Spec", segs="Segs", view="View"), R,
                simulate=dict(num=600, depth=10))
    need(rep, ["complete-fog", "refused-explore", "refused-mark", "query-with-two-acceptable-neighbours",
               "nothing-to-the-right", "mixed-depth-fog"])
    return rep.finish()


CHECKS = {"C17": c17, "C11": c11}
