"""Checks on the small state machines: ScratchDB (C17), HexaryTrieFog (C11)."""
from . import pipeline
from .common import Report

LEVEL = "model_checking"


def run_s2c(rep, module, cfg_text, replayer, opts=(), **kw):
    res = pipeline.spec_to_code(rep, module, cfg_text, replayer, opts, **kw)
    if kw.get("simulate"):
        rep.cov.setdefault("tlc_runs", []).append(
            {"module": module, "mode": "simulate", "behaviours": res.traces, "steps": res.generated,
             "depth": kw["simulate"]["depth"], "emitted": res.emitted, "wall_s": round(res.wall, 1)})
        return res
    rep.cov["exhaustive"] = True
    rep.cov.setdefault("tlc_runs", []).append(
        {"module": module, "mode": "exhaustive", "distinct_states": res.distinct, "transitions": res.generated,
         "depth": res.depth, "emitted": res.emitted, "wall_s": round(res.wall, 1)})
    return res


def need(rep, tags):
    for t in tags:
        if not rep.cov.get("case_tags", {}).get(t):
            rep.vacuity.append(f"no replayed behaviour was tagged '{t}'")


SCRATCH_CFG = """SPECIFICATION {spec}
CONSTANTS
  Keys <- {keys}
  Vals <- V2
  ExitKinds <- BothExits
INVARIANT ReadSeesLatest
INVARIANT ContainsAgrees
INVARIANT CacheIsLatest
PROPERTY WrappedOnlyOnCommit
PROPERTY NeverWrittenWhileOpen
PROPERTY CommitApplies
PROPERTY AbortKeeps
PROPERTY BufferEmptiedOnExit
VIEW View
ACTION_CONSTRAINT Emit
CHECK_DEADLOCK FALSE
"""


def c17(tier):
    rep = Report("C17", tier, LEVEL)
    rep.assumptions += ["the wrapped database is a dict nobody else writes during the behaviour",
                        "exhaustive over every initial content and every call sequence of the bounded universe"]
    R = "harness.scratchdb:replay_line"
    if tier == "quick":
        run_s2c(rep, "MC_ScratchDB", SCRATCH_CFG.format(spec="Spec", keys="K2"), R)
        # every behaviour of up to 5 calls (no state merging: the history is part of the state)
        run_s2c(rep, "MC_ScratchDB", SCRATCH_CFG.format(spec="SpecL6", keys="K2").replace("VIEW View", "VIEW ViewHist"), R)
        run_s2c(rep, "MC_ScratchDB", SCRATCH_CFG.format(spec="Spec", keys="K3"), R, simulate=dict(num=600, depth=12))
    else:
        run_s2c(rep, "MC_ScratchDB", SCRATCH_CFG.format(spec="Spec", keys="K3"), R)
        run_s2c(rep, "MC_ScratchDB", SCRATCH_CFG.format(spec="SpecL7", keys="K2").replace("VIEW View", "VIEW ViewHist"), R)
        run_s2c(rep, "MC_ScratchDB", SCRATCH_CFG.format(spec="Spec", keys="K3"), R, simulate=dict(num=20000, depth=16))
    need(rep, ["aborted-batch", "committed-batch", "deletes-requested", "write-then-delete", "read-raises-KeyError"])
    return rep.finish()


FOG_CFG = """SPECIFICATION {spec}
CONSTANTS
  SegSets <- {segs}
  BadSegSeqs <- BadSeqs
  QueryKeys <- Q3
  Strangers <- Strange
INVARIANT IsAntichain
INVARIANT QueriesOK
INVARIANT AtMostOneContaining
INVARIANT Commute
INVARIANT ValidationExact
PROPERTY MarkIsExplores
PROPERTY RefusedUnchanged
VIEW {view}
ACTION_CONSTRAINT Emit
CHECK_DEADLOCK FALSE
"""


def c11(tier):
    rep = Report("C11", tier, LEVEL)
    rep.assumptions += ["nibbles restricted to {0,1,2,15} (plus 7 in queries); sub-segment lists from a fixed menu of leaf / "
                        "extension / branch / mixed-length shapes", "sortedcontainers is trusted"]
    R = "harness.fog:replay_line"
    if tier == "quick":
        run_s2c(rep, "MC_Fog", FOG_CFG.format(spec="SpecL4", segs="SegsSmall", view="View"), R)
        run_s2c(rep, "MC_Fog", FOG_CFG.format(spec="Spec", segs="Segs", view="View"), R,
                simulate=dict(num=24, depth=8))
    else:
        run_s2c(rep, "MC_Fog", FOG_CFG.format(spec="SpecL5", segs="Segs", view="View"), R)
        run_s2c(rep, "MC_Fog", FOG_CFG.format(spec="SpecL4", segs="SegsSmall", view="ViewHist"), R)
        run_s2c(rep, "MC_Fog", FOG_CFG.format(spec="Spec", segs="Segs", view="View"), R,
                simulate=dict(num=600, depth=10))
    need(rep, ["complete-fog", "refused-explore", "refused-mark", "query-with-two-acceptable-neighbours",
               "nothing-to-the-right", "mixed-depth-fog"])
    return rep.finish()


CHECKS = {"C17": c17, "C11": c11}


WALK_CFG = """SPECIFICATION {spec}
CONSTANTS
  Keys <- {keys}
  Vals <- {vals}
  MaxLive = {maxlive}
  MaxMuts = {muts}
  CacheModes <- {cache}
  PruneModes <- {prune}
  StartAll = {startall}
INVARIANT Antichain
INVARIANT NothingInvented
INVARIANT WalkComplete
INVARIANT ExactWhenStatic
INVARIANT DepthBounded
PROPERTY MissingOnlyViaCache
PROPERTY Terminates
VIEW View
ACTION_CONSTRAINT Emit
CHECK_DEADLOCK FALSE
"""


def walk_cfg(spec="Spec", keys="KWalk", vals="VWalk", maxlive=3, muts=1, cache="Both", prune="Both",
             startall="FALSE"):
    return WALK_CFG.format(spec=spec, keys=keys, vals=vals, maxlive=maxlive, muts=muts, cache=cache,
                           prune=prune, startall=startall)


def c09(tier):
    rep = Report("C09", tier, LEVEL)
    rep.assumptions += ["the trie under the walker is Canon(contents) and the readable node bodies are Stored(Canon) "
                        "when pruning, everything ever written otherwise (properties C02/C04/C06; re-checked here "
                        "because the replay runs a real trie)", "the number of mutations during one walk is bounded"]
    R = "harness.fogwalk:replay_line"
    if tier == "quick":
        run_s2c(rep, "MC_FogWalk", walk_cfg(maxlive=3, muts=1), R)
        run_s2c(rep, "MC_FogWalk", walk_cfg(keys="KWalk2", vals="VLongOnly", maxlive=4, muts=3, startall="TRUE"), R,
                simulate=dict(num=36, depth=30))
    else:
        run_s2c(rep, "MC_FogWalk", walk_cfg(maxlive=3, muts=2), R, timeout=3400)
        run_s2c(rep, "MC_FogWalk", walk_cfg(keys="KWalk2", vals="VLongOnly", maxlive=3, muts=1), R)
        run_s2c(rep, "MC_FogWalk", walk_cfg(keys="KWalk2", vals="VWalk", maxlive=5, muts=4, startall="TRUE"), R,
                simulate=dict(num=1200, depth=40))
    need(rep, ["round-through-simulated-node", "stale-cache-entry-dropped", "round-via-frontier-cache",
               "mutation-during-walk", "walk-completed-within-behaviour"])
    return rep.finish()


CHECKS["C09"] = c09


BIN_CFG = """SPECIFICATION {spec}
CONSTANTS
  Keys <- {keys}
  Vals <- {vals}
  LookupKeys <- {look}
  MaxLive = {maxlive}
{inv}
{prop}
VIEW {view}
{emit}
CHECK_DEADLOCK FALSE
"""
BIN12 = ["Canonical", "MapOK", "PrefixFree", "EmptyIsBlank", "Readable", "PastRootsReadable"]
BIN13 = ["BranchOrRefusal", "BranchConfirms", "BranchUnforgeable", "ExistsIffPrefix", "TrieNodesExact",
         "WitnessSound", "WitnessSufficient", "WitnessRefusal"]


def bin_cfg(spec="SpecL5", keys="KSmall", vals="V2", look="LSmall", maxlive=3, inv=BIN12, prop=("RefusalRule", "AppendOnly"),
            view="View", emit="ACTION_CONSTRAINT Emit"):
    return BIN_CFG.format(spec=spec, keys=keys, vals=vals, look=look, maxlive=maxlive, view=view, emit=emit,
                          inv="\n".join("INVARIANT " + i for i in inv), prop="\n".join("PROPERTY " + p for p in prop))


def c12(tier):
    rep = Report("C12", tier, LEVEL)
    rep.assumptions += ["keys are whole bytes, 1-3 (4) bytes long; hash = identity in the model; database is a dict"]
    R = "harness.binary:replay_line"
    if tier == "quick":
        run_s2c(rep, "MC_Binary", bin_cfg(spec="SpecL5", view="ViewFull"), R)
        run_s2c(rep, "MC_Binary", bin_cfg(spec="Spec", keys="KFull", look="LFull", vals="V3", maxlive=5,
                                          inv=BIN12 + ["EmitSt"], emit=""), R, simulate=dict(num=480, depth=14))
    else:
        run_s2c(rep, "MC_Binary", bin_cfg(spec="SpecL6", keys="KFull", look="LFull", vals="V3", maxlive=4), R)
        run_s2c(rep, "MC_Binary", bin_cfg(spec="SpecL6", view="ViewFull"), R)
        run_s2c(rep, "MC_Binary", bin_cfg(spec="Spec", keys="KFull", look="LFull", vals="V3", maxlive=6,
                                          inv=BIN12 + ["EmitSt"], emit=""), R, simulate=dict(num=12000, depth=18))
    need(rep, ["last:set-refused", "last:delsub", "last:del", "has-kv", "has-branch", "has-leaf"])
    return rep.finish()


def c13(tier):
    rep = Report("C13", tier, LEVEL)
    rep.assumptions += ["keys / prefixes are whole bytes; corrupted branches are built from the genuine branch "
                        "(node removed, truncated, node altered, branch of another key) and a menu of claimed values"]
    R = "harness.binary:replay_line"
    inv = BIN13 + ["EmitSt13"]
    if tier == "quick":
        run_s2c(rep, "MC_Binary", bin_cfg(spec="SpecL5", inv=inv, prop=(), emit=""), R)
        run_s2c(rep, "MC_Binary", bin_cfg(spec="Spec", keys="KFull", look="LFull", vals="V2", maxlive=5, inv=inv,
                                          prop=(), emit=""), R, simulate=dict(num=96, depth=12))
    else:
        run_s2c(rep, "MC_Binary", bin_cfg(spec="SpecL6", keys="KFull", look="LFull", vals="V2", maxlive=4, inv=inv,
                                          prop=(), emit=""), R)
        run_s2c(rep, "MC_Binary", bin_cfg(spec="Spec", keys="KFull", look="LFull", vals="V3", maxlive=6, inv=inv,
                                          prop=(), emit=""), R, simulate=dict(num=2400, depth=14))
    need(rep, ["branch-refused", "witness-refused", "has-kv", "has-branch", "calls:if_branch_valid"])
    return rep.finish()


CHECKS["C12"] = c12
CHECKS["C13"] = c13


SMT_CFG = """SPECIFICATION Spec
CONSTANTS
  Depth = {depth}
  Keys <- {keys}
  Vals <- VX
  Defaults <- {defaults}
  MaxOps = {ops}
  Truncations <- {trunc}
INVARIANT IsFull
INVARIANT GetMatches
INVARIANT ClearedIsInitial
INVARIANT BranchVerifies
INVARIANT ProofInSync
PROPERTY UpdateListIsPath
PROPERTY ShortestListSuffices
VIEW View
{emit}
CHECK_DEADLOCK FALSE
"""


def smt_cfg(depth=8, keys="K8s", defaults="DBoth", ops=3, trunc="TFull8", emit="ACTION_CONSTRAINT Emit"):
    return SMT_CFG.format(depth=depth, keys=keys, defaults=defaults, ops=ops, trunc=trunc, emit=emit)


def c14(tier):
    rep = Report("C14", tier, LEVEL)
    rep.assumptions += ["exhaustive for key sizes 1, 2 and 8 (thorough: 32) over small key universes; collapsed normal form identifies subtrees with equal "
                        "Merkle hashes (collisions are outside the model)"]
    R = "harness.smt:replay_line"
    if tier == "quick":
        run_s2c(rep, "MC_SMT", smt_cfg(ops=3), R)
        run_s2c(rep, "MC_SMT", smt_cfg(depth=16, keys="K16", ops=2, trunc="TFull16"), R)
        run_s2c(rep, "MC_SMT", smt_cfg(keys="K8", ops=12, emit="INVARIANT EmitSt"), R, simulate=dict(num=96, depth=12))
        run_s2c(rep, "MC_SMT", smt_cfg(depth=64, keys="K64", ops=2, trunc="TFull64", defaults="DBlank"), R)
    else:
        run_s2c(rep, "MC_SMT", smt_cfg(depth=64, keys="K64", ops=3, trunc="TFull64"), R)
        run_s2c(rep, "MC_SMT", smt_cfg(depth=256, keys="K256", ops=2, trunc="TFull256"), R)
        run_s2c(rep, "MC_SMT", smt_cfg(keys="K8", ops=4), R)
        run_s2c(rep, "MC_SMT", smt_cfg(depth=16, keys="K16", ops=3, trunc="TFull16"), R)
        run_s2c(rep, "MC_SMT", smt_cfg(depth=16, keys="K16", ops=16, trunc="TFull16", emit="INVARIANT EmitSt"), R,
                simulate=dict(num=2400, depth=16))
    need(rep, ["non-blank-default", "blank-value-written", "absent-key", "calls:calc_root"])
    return rep.finish()


def c15(tier):
    rep = Report("C15", tier, LEVEL)
    rep.assumptions += ["exhaustive for key sizes 1, 2, 8 and 32 over small key universes (tracked key = any member, "
                        "truncation lengths from a menu covering every bit position that is a branch point in the "
                        "universe, one below and one above)"]
    R = "harness.smt:replay_line"
    if tier == "quick":
        run_s2c(rep, "MC_SMT", smt_cfg(ops=2, trunc="T8"), R)
        run_s2c(rep, "MC_SMT", smt_cfg(ops=3, trunc="T8few", defaults="DBlank", keys="K8t"), R)
        run_s2c(rep, "MC_SMT", smt_cfg(depth=16, keys="K16", ops=2, trunc="T16few", defaults="DBlank"), R)
        run_s2c(rep, "MC_SMT", smt_cfg(keys="K8", ops=12, trunc="T8", emit="INVARIANT EmitSt"), R,
                simulate=dict(num=96, depth=12))
        run_s2c(rep, "MC_SMT", smt_cfg(depth=64, keys="K64", ops=2, trunc="T64few", defaults="DBlank"), R)
        run_s2c(rep, "MC_SMT", smt_cfg(depth=256, keys="K256", ops=1, trunc="T256few", defaults="DBlank"), R)
    else:
        run_s2c(rep, "MC_SMT", smt_cfg(depth=64, keys="K64", ops=3, trunc="T64few"), R)
        run_s2c(rep, "MC_SMT", smt_cfg(depth=256, keys="K256", ops=3, trunc="T256few"), R)
        run_s2c(rep, "MC_SMT", smt_cfg(keys="K8", ops=3, trunc="T8"), R)
        run_s2c(rep, "MC_SMT", smt_cfg(depth=16, keys="K16", ops=3, trunc="T16few"), R)
        run_s2c(rep, "MC_SMT", smt_cfg(depth=16, keys="K16", ops=16, trunc="T16few", emit="INVARIANT EmitSt"), R,
                simulate=dict(num=2400, depth=16))
    need(rep, ["proof-tracked", "truncated-list-refused", "calls:proof.update"])
    return rep.finish()


CHECKS["C14"] = c14
CHECKS["C15"] = c15
