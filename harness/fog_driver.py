"""Code -> specification for HexaryTrieFog: generated exploration histories over all 16 nibbles."""
import importlib

from .fog import contents


def rand_path(rng, n):
    return tuple(rng.randrange(16) for _ in range(n))


class Runner:
    """executes explore / mark_all_complete calls on real fog objects and records one event per call"""

    def __init__(self, mod):
        self.fogmod = importlib.import_module("trie.fog")
        self.exc = importlib.import_module("trie.exceptions")
        self.fog = self.fogmod.HexaryTrieFog()
        self.ev = []
        self.calls = []

    def apply(self, a, p, segs, ps, queries):
        fog = self.fog
        self.calls.append([a, list(p), [list(x) for x in segs], [list(x) for x in ps], [list(q) for q in queries]])
        e = {"a": a, "p": list(p), "segs": [list(x) for x in segs], "ps": [list(x) for x in ps]}
        before = contents(fog)
        try:
            new = fog.explore(p, segs) if a == "explore" else fog.mark_all_complete(ps)
            e["ok"] = True
        except Exception:  # noqa
            new = fog
            e["ok"] = False
        st = {"fog": [list(x) for x in contents(new)], "receiver_unchanged": contents(fog) == before,
              "is_complete": new.is_complete, "nu": [], "nr": []}
        try:
            again = self.fogmod.HexaryTrieFog.deserialize(new.serialize())
            st["roundtrip"] = (again == new) and contents(again) == contents(new)
        except Exception:  # noqa
            st["roundtrip"] = False
        for q in queries:
            for name, key in (("nearest_unknown", "nu"), ("nearest_right", "nr")):
                try:
                    r = {"q": list(q), "exc": "", "p": [int(x) for x in getattr(new, name)(tuple(q))]}
                except (self.exc.PerfectVisibility, self.exc.FullDirectionalVisibility) as x2:
                    r = {"q": list(q), "exc": "+".join(n for n, c in (
                        ("FullDirectionalVisibility", self.exc.FullDirectionalVisibility),
                        ("PerfectVisibility", self.exc.PerfectVisibility)) if isinstance(x2, c)), "p": []}
                except Exception as x2:  # noqa
                    r = {"q": list(q), "exc": "other:" + type(x2).__name__, "p": []}
                st[key].append(r)
        e["st"] = st
        self.ev.append(e)
        self.fog = new

    def trace(self):
        return {"ev": self.ev, "plan": {"calls": self.calls}}


def gen_trace(mod, rng):
    r = Runner(mod)
    for _ in range(rng.randint(3, 14)):
        cur = contents(r.fog)
        x = rng.random()
        p, segs, ps = (), [], []
        if x < 0.75 or not cur:
            a = "explore"
            p = rng.choice(cur) if cur and rng.random() < 0.9 else rand_path(rng, rng.choice([0, 1, 2]))
            kind = rng.random()
            if kind < 0.25:
                segs = []
            elif kind < 0.45:
                segs = [rand_path(rng, rng.choice([1, 2, 3, 5]))]
            elif kind < 0.8:
                segs = [(n,) for n in sorted(rng.sample(range(16), rng.randint(1, 6)))]
            else:
                segs = [rand_path(rng, rng.choice([1, 1, 2, 3])) for _ in range(rng.randint(2, 4))]
                if rng.random() < 0.3:
                    segs.append(segs[0] + rand_path(rng, 1))        # nested
                if rng.random() < 0.2:
                    segs.append(segs[-1])                            # duplicate
        else:
            a = "mark"
            ps = rng.sample(cur, rng.randint(1, min(3, len(cur))))
            if rng.random() < 0.15:
                ps.append(ps[0])
            if rng.random() < 0.15:
                ps.append(rand_path(rng, 2))
        # the queries are planned against the contents the call should produce; any keys will do
        qs = [rand_path(rng, rng.choice([0, 1, 2, 3, 4])) for _ in range(4)] + \
             [tuple(c) + rand_path(rng, 1) for c in cur[:2]] + [tuple(c) for c in cur[:2]] + \
             [tuple(p) + tuple(sg) for sg in segs[:2]]
        r.apply(a, p, segs, ps, qs)
    return r.trace()


def rerun_trace(mod, trace):
    """re-execute the calls of a recorded trace on the current code (./check --replay)"""
    r = Runner(mod)
    for a, p, segs, ps, qs in trace["plan"]["calls"]:
        r.apply(a, tuple(p), [tuple(x) for x in segs], [tuple(x) for x in ps], [tuple(q) for q in qs])
    return r.trace()


def consts(traces):
    return "---- MODULE TraceConsts_Fog ----\nTNone == {}\n====\n"
