"""Code -> specification for HexaryTrieFog: generated exploration histories over all 16 nibbles."""
import importlib

from .fog import contents


def rand_path(rng, n):
    return tuple(rng.randrange(16) for _ in range(n))


def gen_trace(mod, rng):
    fogmod = importlib.import_module("trie.fog")
    exc = importlib.import_module("trie.exceptions")
    fog = fogmod.HexaryTrieFog()
    ev = []
    for _ in range(rng.randint(3, 14)):
        cur = contents(fog)
        x = rng.random()
        if x < 0.75 or not cur:
            p = rng.choice(cur) if cur and rng.random() < 0.9 else rand_path(rng, rng.choice([0, 1, 2]))
            kind = rng.random()
            if kind < 0.25:
                segs = []
            elif kind < 0.45:
                segs = [rand_path(rng, rng.choice([1, 2, 3, 5]))]
            elif kind < 0.8:
                segs = [(n,) for n in sorted(rng.sample(range(16), rng.randint(1, 6)))]
            else:
                segs = [rand_path(rng, rng.choice([1, 1, 2, 3])) for _ in range(rng.randint(2, 4))]
                if rng.random() < 0.3:
                    segs.append(segs[0] + rand_path(rng, 1))        # nested
                if rng.random() < 0.2:
                    segs.append(segs[-1])                            # duplicate
            e = {"a": "explore", "p": list(p), "segs": [list(s) for s in segs], "ps": []}
            call = lambda: fog.explore(p, segs)  # noqa: E731
        else:
            k = rng.randint(1, min(3, len(cur)))
            ps = rng.sample(cur, k)
            if rng.random() < 0.15:
                ps.append(ps[0])
            if rng.random() < 0.15:
                ps.append(rand_path(rng, 2))
            e = {"a": "mark", "p": [], "segs": [], "ps": [list(p) for p in ps]}
            call = lambda: fog.mark_all_complete(ps)  # noqa: E731
        before = contents(fog)
        try:
            new = call()
            e["ok"] = True
        except Exception:  # noqa
            new = fog
            e["ok"] = False
        st = {"fog": [list(p) for p in contents(new)], "receiver_unchanged": contents(fog) == before,
              "is_complete": new.is_complete, "nu": [], "nr": []}
        try:
            again = fogmod.HexaryTrieFog.deserialize(new.serialize())
            st["roundtrip"] = (again == new) and contents(again) == contents(new)
        except Exception:  # noqa
            st["roundtrip"] = False
        qs = [rand_path(rng, rng.choice([0, 1, 2, 3, 4])) for _ in range(4)] + \
             [tuple(p) + rand_path(rng, 1) for p in contents(new)[:2]] + [tuple(p) for p in contents(new)[:2]]
        for q in qs:
            for name, key in (("nearest_unknown", "nu"), ("nearest_right", "nr")):
                try:
                    r = {"q": list(q), "exc": "", "p": [int(x) for x in getattr(new, name)(q)]}
                except (exc.PerfectVisibility, exc.FullDirectionalVisibility) as x2:
                    r = {"q": list(q), "exc": type(x2).__name__, "p": []}
                except Exception as x2:  # noqa
                    r = {"q": list(q), "exc": "other:" + type(x2).__name__, "p": []}
                st[key].append(r)
        e["st"] = st
        ev.append(e)
        fog = new
    return {"ev": ev}


def consts(traces):
    return "---- MODULE TraceConsts_Fog ----\nTNone == {}\n====\n"
