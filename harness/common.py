"""Shared plumbing of the py-trie verification harness: locating the repository
under test, seeds/tiers, scratch space, verdict and evidence files."""
import json
import os
import shutil
import sys
import tempfile
import time

VERIF = os.path.dirname(os.path.dirname(os.path.abspath(__file__)))
REPO = os.environ.get("VERIF_REPO", "/repo")
SPEC = os.path.join(VERIF, "spec")
GUARD = "ETHEREUM_PY_TRIE_VERIF"
# where evidence/ and replays/ are written (redirected by the self-test so that runs
# against mutated copies of the repository do not overwrite the real evidence)
OUT = os.environ.get("VERIF_OUT") or VERIF


def import_repo():
    """Make `import trie` resolve to the working tree under test, and prove it."""
    if REPO not in sys.path:
        sys.path.insert(0, REPO)
    for name in [m for m in sys.modules if m == "trie" or m.startswith("trie.")]:
        if not getattr(sys.modules[name], "__file__", "").startswith(REPO):
            del sys.modules[name]
    import trie  # noqa

    here = os.path.realpath(trie.__file__)
    if not here.startswith(os.path.realpath(REPO) + os.sep):
        raise MachineryError(f"trie imported from {here}, not from {REPO}")
    return trie


class MachineryError(Exception):
    """The verification machinery itself failed (exit status 2, never a verdict)."""


def seed():
    return int(os.environ.get("VERIF_SEED", "0") or 0)


_scratch = None


def scratch():
    """Per-run scratch directory outside /repo and /verif, removed at exit."""
    global _scratch
    if _scratch is None:
        base = os.environ.get("VERIF_SCRATCH") or tempfile.gettempdir()
        _scratch = tempfile.mkdtemp(prefix="verif-run-", dir=base)
        import atexit

        atexit.register(lambda: shutil.rmtree(_scratch, ignore_errors=True))
    return _scratch


def hexs(b):
    return b.hex() if isinstance(b, (bytes, bytearray)) else b


class Report:
    """Collects what one run of one check covered and found."""

    def __init__(self, prop, tier, level):
        self.prop = prop
        self.tier = tier
        self.level = level
        self.t0 = time.time()
        self.violations = []      # dicts, each written as a replay file
        self.known = []           # (finding id, text)
        self.notes = {}           # text -> count   (mirror divergences, other-property sightings)
        self.cov = {"samples": []}
        self.assumptions = []
        self.vacuity = []
        Report.current = self

    current = None

    def note(self, text, sample=None):
        self.notes[text] = self.notes.get(text, 0) + 1
        if sample is not None and self.notes[text] == 1:
            self.cov.setdefault("divergence_samples", []).append({"note": text, "sample": sample})

    def add(self, key, n=1):
        self.cov[key] = self.cov.get(key, 0) + n

    def sample(self, s, cap=4):
        if len(self.cov["samples"]) < cap:
            self.cov["samples"].append(s)

    def violation(self, clause, detail, replay):
        self.violations.append({"property": self.prop, "clause": clause, "detail": detail,
                                "replay": replay})

    def finish(self):
        """Write replays + evidence, print verdict lines, return the exit status."""
        from . import findings

        wall = round(time.time() - self.t0, 2)
        rdir = os.path.join(OUT, "replays", self.prop)
        os.makedirs(rdir, exist_ok=True)
        for f in os.listdir(rdir):
            if f.startswith("last-"):
                os.remove(os.path.join(rdir, f))
        new = []
        for v in self.violations:
            fid = findings.match_open(self.prop, v)
            if fid is not None:
                if fid not in [k for k, _ in self.known]:
                    self.known.append((fid, findings.describe(fid)))
                continue
            new.append(v)
        seen = set()
        status = 0
        for fid, text in self.known:
            print(f"KNOWN-FINDING: property={self.prop} {text}")
        for i, v in enumerate(new):
            key = (v["clause"], json.dumps(v["replay"], sort_keys=True, default=hexs)[:2000])
            if key in seen:
                continue
            seen.add(key)
            if len(seen) > 5:
                break
            path = os.path.join(rdir, f"last-{len(seen)}.json")
            with open(path, "w") as fh:
                json.dump({"property": self.prop, "clause": v["clause"], "detail": v["detail"],
                           "replay": v["replay"]}, fh, indent=1, default=hexs)
            print(f"VIOLATION property={self.prop} replay={path}")
            print(f"  clause={v['clause']} detail={json.dumps(v['detail'], default=hexs)[:600]}")
            status = 1
        for text, n in sorted(self.notes.items()):
            print(f"NOTE: {text} (x{n})")
        if self.notes:
            self.cov["notes"] = self.notes
        c = self.cov
        c["traces_validated_against_impl"] = c.get("behaviours_replayed", 0) + \
            c.get("recorded_traces_validated", 0)
        c.setdefault("evaluations", c.get("behaviours_replayed", 0) + c.get("trace_steps_validated", 0)
                     + c.get("table_rows_checked", 0) + c.get("real_calls_in_state_tables", 0))
        c.setdefault("distinct_nontrivial", c.get("distinct_final_states_replayed", 0)
                     + c.get("distinct_trace_states", 0) + c.get("distinct_rows", 0))
        c.setdefault("rule", "spec->code: one behaviour per transition TLC generated in the bounded model, "
                     "replayed on the real code; distinct = distinct predicted final states (hash of the "
                     "emitted observables). code->spec: one trace per generated history of the real code, "
                     "validated step by step by TLC; distinct = distinct states TLC saw while validating")
        ev = {
            "property_id": self.prop,
            "tier": self.tier,
            "seed": seed(),
            "level": self.level,
            "coverage": self.cov,
            "assumptions": self.assumptions,
            "wall_s": wall,
            "violations": len(seen),
        }
        if self.known:
            ev["known_findings"] = [k for k, _ in self.known]
        os.makedirs(os.path.join(OUT, "evidence"), exist_ok=True)
        with open(os.path.join(OUT, "evidence", f"{self.prop}.json"), "w") as fh:
            json.dump(ev, fh, indent=1, default=hexs)
        if self.vacuity and status == 0:
            for v in self.vacuity:
                print(f"MACHINERY: vacuous check: {v}")
            return 2
        print(f"{self.prop} {self.tier}: {'VIOLATED' if status else 'held'} "
              f"({wall}s; " + ", ".join(f"{k}={v}" for k, v in self.cov.items()
                                        if isinstance(v, (int, bool))) + ")")
        return status


def c18_relabel(obj, findings, replay_fn):
    """C18 demands that everything after a refused call is as if the call had not been made.
    When a behaviour with a refused call in mid-history yields a complaint owned by another
    property, replay the behaviour without the refused calls: if the complaint disappears the
    refused call caused it, and it is a C18 finding; otherwise it is left to its owner."""
    h = obj.get("h") or []
    if not any(e.get("a") == "reject" for e in h[:-1]):
        return findings
    others = [f for f in findings if f[0] not in ("C18", "mirror", "machinery")]
    if not others:
        return findings
    stripped = dict(obj, h=[e for e in h if e.get("a") != "reject"])
    base = {(f[0], f[1]) for f in replay_fn(stripped)}
    out = []
    for f in findings:
        if f in others and (f[0], f[1]) not in base:
            out.append(("C18", "results-after-refused-call-differ:" + f[1], f[2]))
        else:
            out.append(f)
    return out
