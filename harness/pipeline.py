"""The two conformance pipelines shared by all checks.

spec_to_code : TLC explores a bounded model exhaustively (checking the
               property's invariants on the design) and prints one behaviour per
               generated transition; a pool of workers replays each behaviour on
               the real code and returns findings.
code_to_spec : a driver runs the real code on generated histories and logs one
               event per public call; TLC validates the whole batch of traces
               against a Trace_*.tla that reuses the specification's actions."""
import json
import multiprocessing as mp
import os
import queue
import threading

from . import tlc
from .common import MachineryError, scratch, seed

_W = {}


def _init(replayer_path, opts):
    import importlib

    from .common import import_repo

    mod_name, fn_name = replayer_path.split(":")
    m = importlib.import_module(mod_name)
    _W["fn"] = getattr(m, fn_name)
    _W["ctx"] = m.make_context(import_repo())
    _W["opts"] = frozenset(opts)


def _work(chunk):
    fn, ctx, opts = _W["fn"], _W["ctx"], _W["opts"]
    n = 0
    findings = []
    kinds = {}
    finals = set()
    sample = None
    for line in chunk:
        try:
            obj = tlc.parse_emit(line)
        except Exception as exc:  # noqa
            findings.append(("machinery", "unparsable-emission", {"err": str(exc), "line": line[:200]}, None))
            continue
        n += 1
        try:
            fs = fn(obj, ctx, opts)
        except Exception as exc:  # noqa
            import traceback

            fs = [("machinery", "replayer-crashed", {"err": traceback.format_exc()[-800:]})]
        if obj.get("h"):
            a = obj["h"][-1].get("a", "?")
            kinds[a] = kinds.get(a, 0) + 1
        finals.add(hash(json.dumps(obj.get("st"), sort_keys=True)))
        if sample is None and len(obj.get("h", [])) >= 3:
            sample = obj
        for f in fs:
            if len(findings) < 50:
                findings.append((f[0], f[1], f[2], obj))
            else:
                findings.append((f[0], f[1], None, None))
    return n, findings, kinds, finals, sample


def spec_to_code(report, module, cfg_text, replayer, opts=(), *, workers_tlc=8, workers_replay=8,
                 timeout=3000, chunk=64, owners=None, heap="6g"):
    """returns the TlcResult; findings are filed into the report.
    owners: property ids whose clauses are verdicts of this check (others are notes)."""
    q = queue.Queue(maxsize=512)
    buf = []

    def on_emit(line):
        buf.append(line)
        if len(buf) >= chunk:
            q.put(list(buf))
            buf.clear()

    result = {}

    def runner():
        try:
            result["res"] = tlc.run(module, None, cfg_text=cfg_text, workers=workers_tlc,
                                    on_emit=on_emit, timeout=timeout, heap=heap)
        except Exception as exc:  # noqa
            result["exc"] = exc
        finally:
            if buf:
                q.put(list(buf))
            q.put(None)

    th = threading.Thread(target=runner, daemon=True)
    th.start()

    def chunks():
        while True:
            c = q.get()
            if c is None:
                return
            yield c

    ctx = mp.get_context("fork")
    total = 0
    finals = set()
    kinds = {}
    with ctx.Pool(workers_replay, initializer=_init, initargs=(replayer, tuple(opts))) as pool:
        for n, findings, k, fin, sample in pool.imap_unordered(_work, chunks()):
            total += n
            finals |= fin
            for a, c in k.items():
                kinds[a] = kinds.get(a, 0) + c
            if sample is not None:
                report.sample({"direction": "spec->code", "behaviour": sample["h"],
                               "expected_final_state_keys": sorted(sample["st"].keys())}, cap=2)
            for owner, clause, detail, obj in findings:
                file_finding(report, owner, clause, detail, obj, owners)
    th.join()
    if "exc" in result:
        raise result["exc"]
    res = result["res"]
    report.add("states", res.distinct)
    report.add("transitions", res.generated)
    report.add("behaviours_replayed", total)
    report.add("distinct_final_states_replayed", len(finals))
    acts = report.cov.setdefault("replayed_last_action_counts", {})
    for a, c in kinds.items():
        acts[a] = acts.get(a, 0) + c
    tlc.require_clean(res, f"{module} exhaustive run")
    if total == 0:
        raise MachineryError(f"{module}: TLC emitted no behaviour")
    return res


def file_finding(report, owner, clause, detail, obj, owners):
    owners = owners or {report.prop}
    if owner == "machinery":
        raise MachineryError(f"{clause}: {detail}")
    if owner in owners:
        if detail is None:
            report.add("violations_beyond_cap")
            return
        report.violation(clause, detail, {"kind": "behaviour", "behaviour": obj})
    elif owner == "mirror":
        report.note(f"mirror-divergence {clause}", sample=None if obj is None else
                    {"detail": detail, "h": obj.get("h")})
    else:
        report.note(f"clause of {owner} failed here ({clause}); judged by that property's own check")


def code_to_spec(report, module, cfg, traces, *, timeout=3000, heap="6g", extra_defs=None,
                 owners=None, describe=None):
    """Validate a batch of recorded traces with TLC.  The trace spec prints
    one line per failing clause: {"fail": [tid, step, clause]} and one
    {"done": tid, "steps": n} per fully consumed trace."""
    path = os.path.join(scratch(), f"traces_{module}_{len(traces)}_{id(traces) % 10000}.json")
    with open(path, "w") as fh:
        json.dump(traces, fh, separators=(",", ":"))
    fails = []
    done = {}

    def on_emit(line):
        o = tlc.parse_emit(line)
        if "fail" in o:
            fails.append(o["fail"])
        elif "done" in o:
            done[o["done"]] = o["steps"]

    res = tlc.run(module, cfg, workers=1, on_emit=on_emit, timeout=timeout, heap=heap,
                  env={"TRACE_FILE": path})
    os.remove(path)
    if res.timed_out or res.errors or not res.finished or res.violated:
        raise MachineryError(f"{module} trace validation failed to run: violated={res.violated} "
                             f"{res.errors[:2]}\n" + "\n".join(res.tail[-30:]))
    report.add("traces_validated_against_impl", len(done))
    report.add("trace_steps_validated", sum(done.values()))
    report.add("trace_states", res.distinct)
    if len(done) != len(traces):
        raise MachineryError(f"{module}: only {len(done)} of {len(traces)} traces were consumed")
    for tid, stepno, clause in fails:
        owner = clause.split(".")[0]
        tr = traces[tid - 1]
        detail = {"trace": tid, "step": stepno, "clause": clause,
                  "event": (describe or (lambda e: e))(tr[stepno - 1]) if 0 < stepno <= len(tr) else None}
        obj = {"kind": "trace", "trace": tr[:stepno]}
        own = owners or {report.prop}
        if owner in own:
            report.violation(clause, detail, obj)
        elif owner == "mirror":
            report.note(f"mirror-divergence {clause}", sample=detail)
        else:
            report.note(f"clause of {owner} failed here ({clause}); judged by that property's own check")
    if traces:
        report.sample({"direction": "code->spec", "trace": traces[seed() % len(traces)][:6]}, cap=3)
    return res
