"""The two conformance pipelines shared by all checks.

spec_to_code : TLC explores a bounded model exhaustively (checking the
               property's invariants on the design) and prints one behaviour per
               generated transition; a pool of workers replays each behaviour on
               the real code and returns findings.
code_to_spec : a driver runs the real code on generated histories and logs one
               event per public call; TLC validates the whole batch of traces
               against a Trace_*.tla that reuses the specification's actions."""
import json
import os
import subprocess
import sys
import threading
import time

from . import tlc
from .common import VERIF, MachineryError, scratch, seed

def spec_to_code(report, module, cfg_text, replayer, opts=(), *, workers_tlc=12, workers_replay=6,
                 timeout=3000, owners=None, heap="6g", simulate=None):
    """returns the TlcResult; findings are filed into the report.
    owners: property ids whose clauses are verdicts of this check (others are notes).
    Replay workers are separate interpreters started with subprocess (no fork of
    this multi-threaded process), fed through pipes."""
    env = dict(os.environ, PYTHONHASHSEED="0", PYTHONPATH=os.pathsep.join(
        [VERIF] + [p for p in [os.environ.get("VERIF_EXTRA_PYTHONPATH")] if p]))   # (tools/coverage_of_repo.sh)
    procs = [subprocess.Popen([sys.executable, "-m", "harness.worker", replayer, json.dumps(list(opts))],
                              cwd=VERIF, env=env, stdin=subprocess.PIPE, stdout=subprocess.PIPE,
                              text=True, bufsize=1 << 16)
             for _ in range(workers_replay)]
    lock = threading.Lock()
    agg = {"total": 0, "finals": set(), "kinds": {}, "findings": [], "samples": [], "tags": {}}

    def collect(p):
        for line in p.stdout:
            r = json.loads(line)
            with lock:
                agg["total"] += r["n"]
                agg["finals"].update(r["finals"])
                for a, c in r["kinds"].items():
                    agg["kinds"][a] = agg["kinds"].get(a, 0) + c
                agg["findings"] += r["findings"]
                for a, c in r.get("tags", {}).items():
                    agg["tags"][a] = agg["tags"].get(a, 0) + c
                if r["sample"] is not None and len(agg["samples"]) < 2:
                    agg["samples"].append(r["sample"])

    collectors = [threading.Thread(target=collect, args=(p,), daemon=True) for p in procs]
    for c in collectors:
        c.start()
    turn = [0]

    def on_emit(line):
        p = procs[turn[0] % len(procs)]
        turn[0] += 1
        p.stdin.write(line)

    progress = os.environ.get("VERIF_PROGRESS")
    if progress:
        head = " ".join(l.strip() for l in cfg_text.splitlines() if "<-" in l or " = " in l or l.startswith("SPEC"))
        print(f"[progress] {module} {'simulate ' + str(simulate) if simulate else 'exhaustive'}: {head[:300]}",
              file=sys.stderr, flush=True)
        t_start = time.time()
    try:
        if simulate:
            # random genuine behaviours of the specification (no state merging: every emitted
            # prefix is the path actually walked), one emitted line per step
            res = tlc.run(module, None, cfg_text=cfg_text, workers=workers_tlc, on_emit=on_emit,
                          timeout=timeout, heap=heap, simulate=max(1, simulate["num"] // workers_tlc),
                          depth=simulate["depth"], seed=seed() + 1)
        else:
            res = tlc.run(module, None, cfg_text=cfg_text, workers=workers_tlc, on_emit=on_emit,
                          timeout=timeout, heap=heap)
    finally:
        for p in procs:
            try:
                p.stdin.close()
            except Exception:  # noqa
                pass
        for c in collectors:
            c.join(timeout=600)
        for p in procs:
            try:
                p.wait(timeout=60)
            except Exception:  # noqa
                p.kill()
    if progress:
        print(f"[progress]   -> {round(time.time() - t_start)} s, states={getattr(res, 'distinct', None)} "
              f"generated={getattr(res, 'generated', None)} replayed={agg['total']}", file=sys.stderr, flush=True)
    if any(p.returncode != 0 for p in procs):
        raise MachineryError(f"a replay worker failed (exit codes {[p.returncode for p in procs]})")
    for sample in agg["samples"]:
        report.sample({"direction": "spec->code", "behaviour": sample["h"],
                       "expected_final_state_keys": sorted(sample["st"].keys())}, cap=2)
    for owner, clause, detail, obj in agg["findings"]:
        file_finding(report, owner, clause, detail, obj, owners, replayer, opts)
    if simulate:
        report.add("simulated_behaviours", res.traces)
        report.add("simulated_steps_replayed", agg["total"])
    else:
        report.add("states", res.distinct)
        report.add("transitions", res.generated)
    report.add("behaviours_replayed", agg["total"])
    report.add("real_calls_in_state_tables", sum(c for a, c in agg["tags"].items()
                                                   if a.startswith("calls:") and a.count(":") == 1))
    report.add("distinct_final_states_replayed", len(agg["finals"]))
    tg = report.cov.setdefault("case_tags", {})
    for a, c in agg["tags"].items():
        tg[a] = tg.get(a, 0) + c
    acts = report.cov.setdefault("replayed_last_action_counts", {})
    for a, c in agg["kinds"].items():
        acts[a] = acts.get(a, 0) + c
    tlc.require_clean(res, f"{module} exhaustive run")
    if agg["total"] != res.emitted:
        raise MachineryError(f"{module}: {res.emitted} behaviours emitted but {agg['total']} replayed")
    if agg["total"] == 0:
        raise MachineryError(f"{module}: TLC emitted no behaviour")
    return res


def file_finding(report, owner, clause, detail, obj, owners, replayer=None, opts=()):
    owners = owners or {report.prop}
    if owner == "machinery":
        raise MachineryError(f"{clause}: {detail}")
    if owner in owners:
        if detail is None:
            report.add("violations_beyond_cap")
            return
        report.violation(clause, detail, {"kind": "behaviour", "replayer": replayer, "opts": sorted(opts),
                                          "owner": owner, "behaviour": obj})
    elif owner == "mirror":
        report.note(f"mirror-divergence {clause}", sample=None if obj is None else
                    {"detail": detail, "h": obj.get("h")})
    else:
        report.note(f"clause of {owner} failed here ({clause}); judged by that property's own check")


def code_to_spec(report, module, cfg, traces, *, consts=None, timeout=3000, heap="2g",
                 owners=None, describe=None, batches=16):
    """Validate recorded traces with TLC, in parallel batches.  The trace spec
    prints one line per failing clause: {"fail": [tid, step, clause]} and one
    {"done": tid, "steps": n} per consumed trace.  consts = (module name, fn):
    fn(batch) returns the text of a module of literal constants for the batch."""
    from concurrent.futures import ThreadPoolExecutor

    nb = max(1, min(batches, (len(traces) + 7) // 8))
    parts = [traces[i::nb] for i in range(nb)]
    index = [list(range(i, len(traces), nb)) for i in range(nb)]

    def one(bi):
        part = parts[bi]
        wd = tlc.fresh_workdir(f"{module}_{bi}")
        if consts is not None:
            with open(os.path.join(wd, consts[0] + ".tla"), "w") as fh:
                fh.write(consts[1](part))
        path = os.path.join(wd, "traces.json")
        with open(path, "w") as fh:
            json.dump(part, fh, separators=(",", ":"))
        fails, done = [], {}

        def on_emit(line):
            o = tlc.parse_emit(line)
            if "fail" in o:
                fails.append(o["fail"])
            elif "done" in o:
                done[o["done"]] = o["steps"]

        res = tlc.run(module, cfg, workers=1, on_emit=on_emit, timeout=timeout, heap=heap,
                      env={"TRACE_FILE": path}, wd=wd)
        return res, fails, done

    with ThreadPoolExecutor(nb) as ex:
        results = list(ex.map(one, range(nb)))
    ndone = nsteps = nstates = 0
    allfails = []
    for bi, (res, fails, done) in enumerate(results):
        if res.timed_out or res.errors or not res.finished or res.violated:
            raise MachineryError(f"{module} trace validation failed to run (batch {bi}): "
                                 f"violated={res.violated} {res.errors[:2]}\n" + "\n".join(res.tail[-30:]))
        if len(done) != len(parts[bi]):
            stuck = index[bi][len(done)] if len(done) < len(index[bi]) else -1
            raise MachineryError(f"{module}: trace #{stuck} was not consumed (an event matched no "
                                 f"enabled specification action); consumed {len(done)} of {len(parts[bi])} in batch {bi}")
        ndone += len(done)
        nsteps += sum(done.values())
        nstates += res.distinct
        allfails += [(index[bi][tid - 1] + 1, stepno, clause) for tid, stepno, clause in fails]
    report.add("recorded_traces_validated", ndone)
    report.add("trace_steps_validated", nsteps)
    report.add("distinct_trace_states", nstates)
    percl = {}
    for tid, stepno, clause in allfails:
        owner = clause.split(".")[0]
        percl[clause] = percl.get(clause, 0) + 1
        if percl[clause] > 3:
            report.add("violations_beyond_cap" if owner in (owners or {report.prop}) else "notes_beyond_cap")
            continue
        tr = traces[tid - 1]
        if isinstance(tr, dict):
            tr = tr["ev"]
        detail = {"trace": tid, "step": stepno, "clause": clause,
                  "event": (describe or (lambda e: e))(tr[stepno - 1]) if 0 < stepno <= len(tr) else None}
        whole = traces[tid - 1]
        cut = dict(whole, ev=whole["ev"][:stepno]) if isinstance(whole, dict) else whole[:stepno]
        obj = {"kind": "trace", "module": module, "cfg": cfg, "trace": cut, "upto": stepno}
        own = owners or {report.prop}
        if owner in own:
            report.violation(clause, detail, obj)
        elif owner == "mirror":
            report.note(f"mirror-divergence {clause}", sample=detail)
        else:
            report.note(f"clause of {owner} failed here ({clause}); judged by that property's own check")
    if traces:
        tr = traces[seed() % len(traces)]
        if isinstance(tr, dict):
            tr = dict(tr, ev=tr.get("ev", [])[:3])
        else:
            tr = tr[:3]
        report.sample({"direction": "code->spec", "trace_prefix": tr}, cap=3)
    return results
