"""Code -> specification for HexaryTrie: run the real code on generated histories
far outside the exhaustive universe and log one event per public call with the
observed state, in the format Trace_Hexary.tla validates."""
import random
from collections import ChainMap

from .hexary import FaultyDict, InjectedWriteError, UserAbort, classify, do_write
from .realize import BLANK_ROOT, decode_entry, decode_root, nibbles_of, unval, val

TAGS = [0x61, 0x7F, 0x80, 0xC8]
LENS = [1, 1, 1, 2, 5, 12, 20, 26, 27, 28, 29, 30, 31, 32, 33, 34, 40, 55, 56, 57]
ALPHA = [0x00, 0x01, 0x10, 0x11, 0xAB, 0xFF]


def key_pool(rng, n):
    pool = set()
    base = [bytes(rng.choice(ALPHA) for _ in range(rng.choice([0, 1, 1, 2, 2, 3, 4]))) for _ in range(n)]
    for b in base:
        pool.add(b)
        if rng.random() < 0.5 and b:
            pool.add(b[:-1] + bytes([b[-1] ^ rng.choice([1, 0x10, 0x01])]))     # sibling
        if rng.random() < 0.3:
            pool.add(b + bytes([rng.choice(ALPHA)]))                            # extension
        if rng.random() < 0.2:
            pool.add(bytes(rng.randrange(256) for _ in range(rng.choice([1, 2, 3, 6]))))
    if rng.random() < 0.1:
        # a long common stem (15 - 33 bytes): extension paths and shared prefixes of 30 - 66 nibbles
        stem = bytes(rng.choice(ALPHA) for _ in range(rng.choice([15, 16, 17, 31, 32, 33])))
        pool = {stem + k for k in pool}
    return sorted(pool)


def rand_val(rng, share):
    if share and rng.random() < 0.5:
        return rng.choice(share)
    return val(rng.choice(TAGS), rng.choice(LENS))


class Recorder:
    def __init__(self, mod, rng, prune, faults):
        self.mod = mod
        self.rng = rng
        self.H = mod.HexaryTrie
        self.db = FaultyDict()
        self.t = self.H(self.db, prune=prune)
        self.t2 = None
        self.prune = prune
        self.faults = faults
        self.batch = None
        self.cm = None
        self.shadow = {}
        self.prev = {}
        self.ev = []
        self.n = 0
        self.lookset = set()
        self.problems = []

    # -- observation ---------------------------------------------------
    def view(self):
        maps = [self.db, self.shadow]
        if self.batch is not None:
            maps.insert(0, {k: v for k, v in self.batch.db.cache.items() if isinstance(v, bytes)})
        return ChainMap(*maps)

    def observe(self, trie):
        self.shadow.update(self.db)
        if self.batch is not None:
            self.shadow.update({k: v for k, v in self.batch.db.cache.items() if isinstance(v, bytes)})
        now = dict(self.db)
        add = [k for k in now if k not in self.prev]
        dele = [k for k in self.prev if k not in now or now[k] != self.prev[k]]
        changed = [k for k in now if k in self.prev and now[k] != self.prev[k]]
        view = self.view()
        st = {
            "root": decode_root(view, trie.root_hash, self.problems),
            "add": [decode_entry(view, k, self.problems) for k in add + changed],
            "del": [decode_entry(ChainMap(self.prev, view), k, self.problems) for k in dele],
            "rc": [],
            "look": [],
        }
        if self.prune:
            rc = {k: v for k, v in self.t.ref_count.items() if v}
            st["rc"] = [[decode_entry(view, k, self.problems), c] for k, c in rc.items() if k in view]
            if any(k not in view for k in rc):
                st["rc"].append([["L", [15, 15, 15], 1, 1, 0, 0], -1])   # count for an unknown node
        self.prev = now
        return st

    def look(self, trie, st, keys):
        if self.faults and self.lost_now():
            return
        for k in keys:
            try:
                got = trie.get(k) if self.n % 2 else trie[k]
                ex = trie.exists(k) if self.n % 3 else (k in trie)
                if ex != (got != b""):
                    got = b"\xee" * 3            # exists disagrees with get: poison the value
                st["look"].append([nibbles_of(k), list(unval(got))])
            except Exception:  # noqa
                st["look"].append([nibbles_of(k), [238, 4]])    # lookup raised: poison

    def lost_now(self):
        return any(k not in self.db for k in self.lostset) if hasattr(self, "lostset") else False

    def log(self, a, trie, real, *, i=1, k=b"", v=b"", j=0, n=None, root=None, lookkeys=()):
        out = {"kind": real["kind"], "n": [], "prefix": [], "v": [0, 0], "rootok": True, "detail": ""}
        if real["kind"] == "missing":
            h = real["hash"]
            out["n"] = decode_entry(self.shadow, h, self.problems) if h in self.shadow else \
                ["L", [15, 15, 15], 1, 1, 0, 0]
            out["prefix"] = real["prefix"] or []
            out["rootok"] = real["root"] == trie.root_hash and real["key"] == k
        elif real["kind"] == "val":
            out["v"] = list(unval(real["v"]))
        elif real["kind"] not in ("ok", "ioerror"):
            out["detail"] = str(real)[:200]
        st = self.observe(trie)
        self.look(trie, st, lookkeys)
        self.ev.append({"a": a, "i": i, "k": nibbles_of(k), "v": list(unval(v)), "j": j,
                        "n": n or [], "root": root or [], "out": out, "st": st})

    # -- calls -----------------------------------------------------------
    def call(self, fn):
        self.n += 1
        try:
            r = fn()
        except Exception as exc:  # noqa
            return classify(exc, self)
        return r if isinstance(r, dict) else {"kind": "ok"}

    def probe_keys(self, pool, k):
        ks = {k, k[:-1] if k else b"", k + b"\x00"}
        ks.update(self.rng.sample(pool, min(3, len(pool))))
        return sorted(ks)

    def write(self, which, pool, share):
        rng = self.rng
        k = rng.choice(pool)
        v = b"" if rng.random() < 0.3 else rand_val(rng, share)
        trie = {"set": self.t, "bset": self.batch, "set2": self.t2}[which]
        real = self.call(lambda: do_write(trie, k, v, self.n))
        self.log("bset" if which == "bset" else "set", trie, real, i=2 if which == "set2" else 1,
                 k=k, v=v, lookkeys=self.probe_keys(pool, k) if real["kind"] == "ok" else ())
        return real

    def get(self, pool):
        rng = self.rng
        k = rng.choice(pool)
        if rng.random() < 0.3 and k:
            k = k[:-1]
        elif rng.random() < 0.2:
            k = k + bytes([rng.choice(ALPHA)])
        trie = self.batch if self.batch is not None else self.t

        def f():
            return {"kind": "val", "v": trie.get(k) if self.n % 2 else trie[k]}
        real = self.call(f)
        self.log("bget" if self.batch is not None else "get", trie, real, k=k)
        return real


def gen_trace(mod, rng, mode, force_prune=None):
    prune = rng.random() < 0.5 if force_prune is None else force_prune
    if mode == "second":
        prune = False
    faults = mode == "faults"
    r = Recorder(mod, rng, prune, faults)
    r.lostset = set()
    pool = key_pool(rng, rng.choice([3, 4, 6, 8]))
    share = [rand_val(rng, None) for _ in range(2)]
    steps = rng.randint(3, 30 if mode != "faults" else 16)
    lost_nodes = {}
    while len(r.ev) < steps:
        x = rng.random()
        if r.batch is not None:
            if x < 0.6:
                r.write("bset", pool, share)
            elif x < 0.7:
                r.get(pool)
            elif x < 0.88:
                cm = r.cm
                real = r.call(lambda: cm.__exit__(None, None, None))
                r.cm = r.batch = None
                r.log("commit", r.t, real, lookkeys=pool[:6] if real["kind"] == "ok" else ())
            else:
                cm = r.cm

                def ab():
                    e = UserAbort()
                    try:
                        if cm.__exit__(UserAbort, e, None):
                            return {"kind": "exc", "type": "swallowed"}
                    except UserAbort:
                        pass
                real = r.call(ab)
                r.cm = r.batch = None
                r.log("abort", r.t, real, lookkeys=pool[:6])
            continue
        if mode in ("batch", "mixed") and x < 0.15:
            def bg():
                r.cm = r.t.squash_changes()
                r.batch = r.cm.__enter__()
            real = r.call(bg)
            r.log("begin", r.t, real)
        elif mode == "second" and x < 0.15 and r.ev:
            # open a second trie on a root the first trie has (had)
            roots = [e for e in r.ev if e["a"] in ("set", "commit") and e["i"] == 1 and e["out"]["kind"] == "ok"]
            if not roots:
                continue
            e = rng.choice(roots)
            rh = e["_rh"] if "_rh" in e else None
            if rh is None:
                continue

            def ad():
                if r.n % 2:
                    r.t2 = r.H(r.db, rh)
                else:
                    with r.t.at_root(rh) as s:
                        r.t2 = s
            real = r.call(ad)
            r.log("adopt", r.t2, real, i=2, root=e["st"]["root"], lookkeys=pool[:5])
        elif mode == "second" and 0.45 <= x < 0.55 and r.ev:
            # point the first trie itself at a root it (or the second trie) had before
            roots = [e for e in r.ev if e.get("_rh") is not None]
            if not roots:
                continue
            e = rng.choice(roots)
            rh = e["_rh"]

            def ck():
                r.t.root_hash = rh
            real = r.call(ck)
            r.log("checkout", r.t, real, i=1, root=e["st"]["root"], lookkeys=pool[:5])
        elif mode == "second" and r.t2 is not None and x < 0.45:
            r.write("set2", pool, share)
        elif faults and x < 0.25 and len(r.db) > 0:
            h = rng.choice(sorted(r.db))
            r.shadow.update(r.db)
            node = decode_entry(r.shadow, h, r.problems)
            lost_nodes[h] = (node, r.db[h])
            dict.__delitem__(r.db, h)
            r.lostset.add(h)
            r.n += 1
            r.log("lose", r.t, {"kind": "ok"}, n=node)
        elif faults and x < 0.35 and any(h not in r.db for h in r.lostset):
            h = rng.choice(sorted(h for h in r.lostset if h not in r.db))
            r.lostset.discard(h)
            dict.__setitem__(r.db, h, lost_nodes[h][1])
            r.n += 1
            r.log("supply", r.t, {"kind": "ok"}, n=lost_nodes[h][0])
        elif x < 0.8:
            real = r.write("set", pool, share)
            if real["kind"] == "ok":
                r.ev[-1]["_rh"] = r.t.root_hash
            # the retry loop of C07: supply exactly the reported node and try again
            tries = 0
            while faults and real["kind"] == "missing" and tries < 12:
                tries += 1
                h = real["hash"]
                if h not in r.lostset or h in r.db:
                    break
                r.lostset.discard(h)
                dict.__setitem__(r.db, h, lost_nodes[h][1])
                r.n += 1
                r.log("supply", r.t, {"kind": "ok"}, n=lost_nodes[h][0])
                ev = r.ev[-2]
                k = bytes(ev["k"][i] * 16 + ev["k"][i + 1] for i in range(0, len(ev["k"]), 2))
                v = val(*ev["v"])
                real = r.call(lambda: do_write(r.t, k, v, r.n))
                r.log("set", r.t, real, k=k, v=v)
        else:
            r.get(pool)
    if r.batch is not None:
        cm = r.cm
        real = r.call(lambda: cm.__exit__(None, None, None))
        r.cm = r.batch = None
        r.log("commit", r.t, real, lookkeys=pool[:6] if real["kind"] == "ok" else ())
    for e in r.ev:
        e.pop("_rh", None)
    return {"prune": prune, "faults": faults, "ev": r.ev, "problems": [p[0] for p in r.problems]}


def consts(traces):
    """literal constants for TraceConsts_Hexary.tla"""
    keys, look, vals = set(), set(), set()
    for t in traces:
        for e in t["ev"]:
            k = tuple(e["k"])
            look.add(k)
            if e["a"] in ("set", "bset", "failwrite"):
                keys.add(k)
                if tuple(e["v"]) != (0, 0):
                    vals.add(tuple(e["v"]))
            for kk, _ in e["st"]["look"]:
                look.add(tuple(kk))

    def seq(k):
        return "<<" + ",".join(map(str, k)) + ">>"
    vals = vals or {(1, 1)}
    return ("---- MODULE TraceConsts_Hexary ----\n"
            "TKeys == {" + ", ".join(seq(k) for k in sorted(keys)) + "}\n"
            "TLook == TKeys \\cup {" + ", ".join(seq(k) for k in sorted(look)) + "}\n"
            "TVals == {" + ", ".join(f"[tag |-> {a}, len |-> {b}]" for a, b in sorted(vals)) + "}\n"
            "====\n")


def rerun_trace(mod, trace):
    """re-execute the calls of a recorded trace on the current code and record them afresh
    (used by `./check Cnn --replay`)"""
    from .realize import Realizer, key_of

    rz = Realizer()
    r = Recorder(mod, random.Random(0), trace["prune"], trace["faults"])
    r.lostset = set()
    lost = {}
    for e in trace["ev"]:
        a = e["a"]
        k = key_of(e["k"])
        v = val(*e["v"])
        look = [key_of(x[0]) for x in e["st"]["look"]]
        if a in ("set", "bset"):
            trie = r.batch if a == "bset" else (r.t2 if e["i"] == 2 else r.t)
            real = r.call(lambda: do_write(trie, k, v, r.n))
            r.log(a, trie, real, i=e["i"], k=k, v=v, lookkeys=look if real["kind"] == "ok" else ())
        elif a in ("get", "bget"):
            trie = r.batch if a == "bget" else r.t

            def f():
                return {"kind": "val", "v": trie.get(k) if r.n % 2 else trie[k]}
            real = r.call(f)
            r.log(a, trie, real, k=k)
        elif a == "begin":
            def bg():
                r.cm = r.t.squash_changes()
                r.batch = r.cm.__enter__()
            r.log("begin", r.t, r.call(bg))
        elif a == "commit":
            cm = r.cm
            real = r.call(lambda: cm.__exit__(None, None, None))
            r.cm = r.batch = None
            r.log("commit", r.t, real, lookkeys=look if real["kind"] == "ok" else ())
        elif a == "abort":
            cm = r.cm

            def ab():
                x = UserAbort()
                try:
                    if cm.__exit__(UserAbort, x, None):
                        return {"kind": "exc", "type": "swallowed"}
                except UserAbort:
                    pass
            real = r.call(ab)
            r.cm = r.batch = None
            r.log("abort", r.t, real, lookkeys=look)
        elif a == "lose":
            h = rz.node(e["n"])["hash"]
            if h in r.db:
                r.shadow.update(r.db)
                lost[h] = r.db[h]
                dict.__delitem__(r.db, h)
                r.lostset.add(h)
            r.n += 1
            r.log("lose", r.t, {"kind": "ok"}, n=e["n"])
        elif a == "supply":
            h = rz.node(e["n"])["hash"]
            if h in lost:
                dict.__setitem__(r.db, h, lost[h])
                r.lostset.discard(h)
            r.n += 1
            r.log("supply", r.t, {"kind": "ok"}, n=e["n"])
        elif a == "adopt":
            rh = rz.root_hash(e["root"])

            def ad():
                r.t2 = r.H(r.db, rh)
            real = r.call(ad)
            r.log("adopt", r.t2, real, i=2, root=e["root"], lookkeys=look)
        elif a == "checkout":
            rh = rz.root_hash(e["root"])

            def ck():
                r.t.root_hash = rh
            real = r.call(ck)
            r.log("checkout", r.t, real, i=1, root=e["root"], lookkeys=look)
    return {"prune": trace["prune"], "faults": trace["faults"], "ev": r.ev, "problems": [p[0] for p in r.problems]}
