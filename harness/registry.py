"""property id -> check function; replay of a stored violation"""
import json

from .common import MachineryError


def table():
    from . import checks_hexary, checks_misc

    t = {}
    t.update(checks_hexary.CHECKS)
    t.update(checks_misc.CHECKS)
    return t


def run(prop, tier):
    t = table()
    if prop not in t:
        raise MachineryError(f"no check registered for {prop}")
    return t[prop](tier)


def replay(prop, path):
    """re-execute exactly the stored behaviour / trace and report whether it still fails"""
    data = json.load(open(path))
    data["_path"] = path
    from . import replays

    return replays.rerun(prop, data)
