"""pytest plugin (`-p harness.recorder_fog`, PYTHONPATH=/verif; nothing in /repo changes): records
what the repository's own tests do with HexaryTrieFog, in the event format that Trace_Fog.tla
validates.  A fog is an immutable value: every explore / mark_all_complete call extends the
*lineage* of the object it was made on (the new object's history is its parent's plus one event);
nearest_unknown / nearest_right calls are attached to the event that produced the object they are
asked of.  Only lineages that start at a freshly constructed fog are followed; the leaves are
written out as traces."""
import json
import os

from .fog import contents

MAX_STEPS = int(os.environ.get("VERIF_RECORD_STEPS", "40"))
MAX_LINEAGES = int(os.environ.get("VERIF_RECORD_MAX", "40"))      # roots per test
OUT = os.environ.get("VERIF_RECORD_OUT")
STATE = {"lin": {}, "done": [], "skipped": {}, "test": "", "started": 0, "total": 0, "depth": 0}


def skip(why):
    STATE["skipped"][why] = STATE["skipped"].get(why, 0) + 1


def plain(seq):
    return [int(x) for x in seq]


def install():
    import trie.exceptions as exc
    from trie.fog import HexaryTrieFog as Fog

    o_init, o_explore, o_mark, o_deser = Fog.__init__, Fog.explore, Fog.mark_all_complete, Fog.deserialize
    o_nu, o_nr = Fog.nearest_unknown, Fog.nearest_right

    def init(self, *a, **kw):
        o_init(self, *a, **kw)
        if STATE["depth"]:
            return
        if STATE["started"] >= MAX_LINEAGES:
            return skip("not followed: fog objects (fresh or derived) beyond the first MAX_LINEAGES fresh ones of a test")
        STATE["started"] += 1
        STATE["lin"][id(self)] = {"obj": self, "ev": [], "leaf": True, "test": STATE["test"]}

    def lineage(fog):
        lin = STATE["lin"].get(id(fog))
        return lin if lin is not None and lin["obj"] is fog else None

    def call(a, orig):
        def w(self, *args, **kw):
            lin = lineage(self)
            if lin is None or STATE["depth"] or kw or len(lin["ev"]) >= MAX_STEPS:
                return orig(self, *args, **kw)
            STATE["depth"] += 1
            raised, new = None, self
            try:
                before = contents(self)
                try:
                    new = orig(self, *args)
                except Exception as x:  # noqa
                    raised = x
                try:
                    if a == "explore":
                        e = {"a": a, "p": plain(args[0]), "segs": [plain(s) for s in args[1]], "ps": []}
                    else:
                        e = {"a": a, "p": [], "segs": [], "ps": [plain(s) for s in args[0]]}
                    e["ok"] = raised is None
                    st = {"fog": [list(x) for x in contents(new)], "receiver_unchanged": contents(self) == before,
                          "is_complete": new.is_complete, "nu": [], "nr": []}
                    try:
                        again = o_deser(new.serialize())
                        st["roundtrip"] = (again == new) and contents(again) == contents(new)
                    except Exception:  # noqa
                        st["roundtrip"] = False
                    e["st"] = st
                    lin["leaf"] = False
                    if new is not self:
                        STATE["lin"][id(new)] = {"obj": new, "ev": lin["ev"] + [e], "leaf": True, "test": lin["test"]}
                    else:
                        lin["ev"] = lin["ev"] + [e]
                        lin["leaf"] = True
                except Exception as x:  # noqa   (ill-formed arguments, ...: the recorder never raises into the test)
                    skip("lineage ended: call could not be expressed: " + type(x).__name__)
                    STATE["lin"].pop(id(self), None)
            finally:
                STATE["depth"] -= 1
            if raised is not None:
                raise raised
            return new
        return w

    def query(name, key, orig):
        def w(self, *args, **kw):
            lin = lineage(self)
            if lin is None or STATE["depth"] or kw or not lin["ev"] or len(lin["ev"][-1]["st"][key]) >= 12:
                return orig(self, *args, **kw)
            raised = res = None
            STATE["depth"] += 1
            try:
                try:
                    res = orig(self, *args)
                except Exception as x:  # noqa
                    raised = x
                try:
                    q = plain(args[0]) if args else []
                    if raised is None:
                        r = {"q": q, "exc": "", "p": plain(res)}
                    elif isinstance(raised, (exc.PerfectVisibility, exc.FullDirectionalVisibility)):
                        r = {"q": q, "exc": "+".join(n for n, c in (
                            ("FullDirectionalVisibility", exc.FullDirectionalVisibility),
                            ("PerfectVisibility", exc.PerfectVisibility)) if isinstance(raised, c)), "p": []}
                    else:
                        r = {"q": q, "exc": "other:" + type(raised).__name__, "p": []}
                    lin["ev"][-1]["st"][key].append(r)
                except Exception:  # noqa
                    skip("query not recorded: ill-formed key")
            finally:
                STATE["depth"] -= 1
            if raised is not None:
                raise raised
            return res
        return w

    def deser(encoded):
        STATE["depth"] += 1
        try:
            return o_deser(encoded)
        finally:
            STATE["depth"] -= 1

    Fog.__init__ = init
    Fog.explore = call("explore", o_explore)
    Fog.mark_all_complete = call("mark", o_mark)
    Fog.nearest_unknown = query("nearest_unknown", "nu", o_nu)
    Fog.nearest_right = query("nearest_right", "nr", o_nr)
    Fog.deserialize = staticmethod(deser)


def flush():
    n = 0
    for lin in STATE["lin"].values():
        if lin["leaf"] and len(lin["ev"]) >= 2 and n < 3 * MAX_LINEAGES:
            n += 1
            STATE["done"].append({"ev": json.loads(json.dumps(lin["ev"])), "test": lin["test"]})
    STATE["lin"].clear()


def pytest_configure(config):
    install()
    try:
        from hypothesis import settings

        settings.register_profile("verif-recorder", deadline=None)
        settings.load_profile("verif-recorder")
    except Exception:  # noqa
        pass


def pytest_runtest_setup(item):
    flush()
    STATE["test"] = item.nodeid
    STATE["total"] += STATE["started"]
    STATE["started"] = 0


def pytest_sessionfinish(session, exitstatus):
    flush()
    if OUT:
        with open(OUT, "w") as fh:
            json.dump({"traces": STATE["done"], "skipped": STATE["skipped"],
                       "tries_followed": STATE["total"] + STATE["started"]}, fh)
